/-
C10 end to end for v1 / v2: `Fprint` / `Sprint` on any view chain of a Number with any normalised
Positions prints the canonical layout of exactly the requested positions that exist; and the
early-exit run (`fprintFault12`) writes what the plain run writes.
-/
import Sqroot.Model.Fprint
import Sqroot.Proofs.Fprint
import Sqroot.Proofs.FprintFault12
namespace Sqroot.Proofs
open Sqroot.Model

namespace FP12
open ViewL

/-- the loop of calls of a `limitSpec` iterator with limit `l`: every `wait` it issues is at an
index `≤ l`, whatever the number of calls; the memoizer keeps its source -/
theorem pullLoop12_lim (c : MemoCfg) (hc : 0 < c.chunk) (src : Src) (l : Int)
    (hcap : FP.CapLim c src l) :
    ∀ (take : Nat) (m : Memo) (it : PullIt) (acc : List (Nat × Nat)),
      m.src = src → SnapOk src it.index it.snap it.ok → (it.index : Int) ≤ l →
      (pullLoop12 c take m it (some l) acc).1.src = src ∧
      (pullLoop12 c take m it (some l) acc).2 =
        acc.reverse ++ (List.range' it.index (cntO (upO src.len (some l)) take it.index)).map
          (fun p => (p, src.digit p)) := by
  intro take
  induction take with
  | zero =>
    intro m it acc hm _ _
    cases hu : upO src.len (some l) <;> simp [pullLoop12, cntO, hm]
  | succ take ih =>
    intro m it acc hm hs hlim
    unfold pullLoop12
    simp only
    by_cases heq : (it.index : Int) = l
    · rw [if_pos heq]
      have : cntO (upO src.len (some l)) (take + 1) it.index = 0 := by
        cases hl : src.len <;> simp only [upO, cntO] <;> omega
      rw [this]; simp [hm]
    · rw [if_neg heq]
      have hnl : (it.index : Int) < l := by omega
      have hcapw : Cap c src (it.index + 1) := by
        unfold FP.CapLim at hcap; unfold Cap
        cases hl : src.len with
        | none => rw [hl] at hcap; simp only at hcap ⊢; omega
        | some L => rw [hl] at hcap; exact hcap
      obtain ⟨m', it', hp, hm', hnext⟩ := pull12_spec c hc src m it hm hs hcapw
      rw [hp]
      cases hok : it.ok with
      | false =>
        simp only [Bool.false_eq_true, if_false]
        obtain ⟨L, hL, hle⟩ := hs.ended hok
        have : cntO (upO src.len (some l)) (take + 1) it.index = 0 := by
          simp only [upO, cntO, hL]; omega
        rw [this]; simp [hm']
      | true =>
        simp only [if_true]
        obtain ⟨hi', hs'⟩ := hnext hok
        have hbelow := hs.below hok
        have hidx : it.index < it.snap := by
          have := hs.ok_eq; rw [hok] at this; simpa using this.symm
        have hlim' : (it'.index : Int) ≤ l := by rw [hi']; omega
        have := ih m' it' ((it.index, src.digit it.index) :: acc) hm' hs' hlim'
        refine ⟨this.1, ?_⟩
        rw [this.2, hi']
        have hc' : cntO (upO src.len (some l)) (take + 1) it.index
            = cntO (upO src.len (some l)) take (it.index + 1) + 1 := by
          cases hl : src.len with
          | none => simp only [upO, cntO]; omega
          | some L => have := hbelow L hl; simp only [upO, cntO]; omega
        rw [hc', List.range'_succ]
        simp

/-- the pull traversal of a value whose window has an upper bound `h`: on an infinite source it
only needs `h` within capacity, whatever the window's start and the number of calls -/
theorem iterate_bounded (c : MemoCfg) (m : Memo) (v : Val12) (lo h : Int) (take : Nat)
    (hrep : Rep12 v ⟨lo, some h⟩) (hc : 0 < c.chunk) (hcap : FP.CapLim c m.src h) :
    (spec12Iterate c m v.spec v.start.toNat take).1.src = m.src ∧
    (spec12Iterate c m v.spec v.start.toNat take).2 =
      Spec.windowList m.src.len m.src.digit ⟨lo, some h⟩ take := by
  obtain ⟨hst, hsp⟩ := hrep
  simp only at hst hsp
  cases hspv : v.spec with
  | nil =>
    rw [hspv] at hsp
    obtain ⟨h', hh, hle⟩ := hsp
    simp only [Option.some.injEq] at hh
    subst hh
    refine ⟨rfl, ?_⟩
    simp only [spec12Iterate]
    unfold Spec.windowList Spec.upper
    cases hl : m.src.len with
    | none =>
      simp only
      have : min take (h - ((max lo 0).toNat : Int)).toNat = 0 := by omega
      rw [this]; simp
    | some L =>
      simp only
      have : min take (min h (L : Int) - ((max lo 0).toNat : Int)).toNat = 0 := by omega
      rw [this]; simp
  | memo =>
    rw [hspv] at hsp
    cases hsp
  | limited l =>
    rw [hspv] at hsp
    obtain ⟨hh, hl0⟩ := hsp
    simp only [Option.some.injEq] at hh
    subst hh
    unfold spec12Iterate
    simp only
    have capOf : ∀ idx : Nat, (idx : Int) ≤ h → Cap c m.src idx := by
      intro idx hle
      unfold FP.CapLim at hcap; unfold Cap
      cases hl : m.src.len with
      | none => rw [hl] at hcap; simp only at hcap ⊢; omega
      | some L => rw [hl] at hcap; exact hcap
    have hwin : ∀ idx : Nat, (idx = v.start.toNat ∨ ((v.start.toNat : Int) > h ∧ idx = h.toNat)) →
        (List.range' idx (cntO (upO m.src.len (some h)) take idx)).map (fun p => (p, m.src.digit p))
          = Spec.windowList m.src.len m.src.digit ⟨lo, some h⟩ take := by
      intro idx hidx
      unfold Spec.windowList Spec.upper
      simp only
      rw [hst] at hidx
      rcases hidx with rfl | ⟨hgt, rfl⟩
      · cases hl : m.src.len <;> simp only [upO, cntO]
      · have h1 : cntO (upO m.src.len (some h)) take h.toNat = 0 := by
          cases hl : m.src.len <;> simp only [upO, cntO] <;> omega
        rw [h1]
        cases hl : m.src.len with
        | none =>
          simp only
          have : min take (h - ((max lo 0).toNat : Int)).toNat = 0 := by omega
          rw [this]; simp
        | some L =>
          simp only
          have : min take (min h (L : Int) - ((max lo 0).toNat : Int)).toNat = 0 := by omega
          rw [this]; simp
    by_cases hgt : (v.start.toNat : Int) > h
    · rw [if_pos hgt]
      obtain ⟨m', it, hn, hm', hidx, hs⟩ := newPull12_spec c hc m h.toNat (capOf h.toNat (by omega))
      rw [hn]
      simp only
      have := pullLoop12_lim c hc m.src h hcap take m' it [] hm' hs (by rw [hidx]; omega)
      refine ⟨this.1, ?_⟩
      rw [this.2, hidx]
      simp only [List.reverse_nil, List.nil_append]
      exact hwin _ (Or.inr ⟨hgt, rfl⟩)
    · rw [if_neg hgt]
      obtain ⟨m', it, hn, hm', hidx, hs⟩ := newPull12_spec c hc m v.start.toNat
        (capOf v.start.toNat (by omega))
      rw [hn]
      simp only
      have := pullLoop12_lim c hc m.src h hcap take m' it [] hm' hs (by rw [hidx]; omega)
      refine ⟨this.1, ?_⟩
      rw [this.2, hidx]
      simp only [List.reverse_nil, List.nil_append]
      exact hwin _ (Or.inl rfl)

theorem apply_withStart (v : Val12) (s : Int) : ∃ v1, v.apply (.withStart s) = some (.ok v1) := by
  cases v <;> exact ⟨_, rfl⟩

theorem apply_withEnd (v : Val12) (e : Int) : ∃ v2, v.apply (.withEnd e) = some (.ok v2) := by
  cases v <;> exact ⟨_, rfl⟩

/-- one digit of look-ahead asks for nothing more: the part of a window inside the range `[s, e)`
has at most `e - s` positions -/
theorem windowList_lookahead (len : Option Nat) (digit : Nat → Nat) (lo s e h : Int) (hle : h ≤ e) :
    Spec.windowList len digit ⟨max lo s, some h⟩ ((e - s).toNat + 2) =
      Spec.windowList len digit ⟨max lo s, some h⟩ ((e - s).toNat + 1) := by
  unfold Spec.windowList Spec.upper
  simp only
  congr 2
  cases len with
  | none => simp only; omega
  | some L => simp only; omega

/-- one range: the feed of the full pull traversal is the part of the view's window inside the
range, and the memoizer keeps its source -/
theorem rangeFeed12_spec (c : MemoCfg) (m : Memo) (v : Val12) (w : Spec.Win) (r : PRange)
    (hrep : Rep12 v w) (hc : 0 < c.chunk) (hcap : FP.CapLim c m.src r.stop) :
    ∃ v1 v2, v.apply (.withStart r.start) = some (.ok v1) ∧ v1.apply (.withEnd r.stop) = some (.ok v2) ∧
      (spec12Iterate c m v2.spec v2.start.toNat ((r.stop - r.start).toNat + 2)).1.src = m.src ∧
      (spec12Iterate c m v2.spec v2.start.toNat ((r.stop - r.start).toNat + 2)).2 =
        Spec.windowList m.src.len m.src.digit
          { lo := max w.lo r.start, hi := Spec.minOpt w.hi r.stop } ((r.stop - r.start).toNat + 1) := by
  obtain ⟨v1, h1⟩ := apply_withStart v r.start
  obtain ⟨v2, h2⟩ := apply_withEnd v1 r.stop
  have hr1 := step12 v v1 w _ hrep h1
  have hr2 := step12 v1 v2 _ _ hr1 h2
  simp only [toSpecOp, Spec.Win.apply] at hr2
  obtain ⟨h, hh, hle⟩ := FP.minOpt_some w.hi r.stop
  rw [hh] at hr2 ⊢
  have hcap' : FP.CapLim c m.src h := by
    unfold FP.CapLim at hcap ⊢
    cases hl : m.src.len with
    | none => rw [hl] at hcap; simp only at hcap ⊢; omega
    | some L => rw [hl] at hcap; exact hcap
  have := iterate_bounded c m v2 (max w.lo r.start) h ((r.stop - r.start).toNat + 2) hr2 hc hcap'
  refine ⟨v1, v2, h1, h2, this.1, ?_⟩
  rw [this.2]
  exact windowList_lookahead _ _ _ _ _ _ hle

/-- all ranges, threading the memoizer state (only its source matters) -/
theorem feeds_spec (c : MemoCfg) (src : Src) (v : Val12) (w : Spec.Win) (hrep : Rep12 v w)
    (hc : 0 < c.chunk) :
    ∀ (ranges : List PRange) (m : Memo), m.src = src → (∀ r ∈ ranges, FP.CapLim c src r.stop) →
      ∃ m' feeds, fprintFeeds12 c m v ranges = some (m', feeds) ∧ m'.src = src ∧
        feeds.flatten = Spec.shownOf src.len src.digit w (toPairs ranges) := by
  intro ranges
  induction ranges with
  | nil =>
    intro m hm _
    exact ⟨m, [], rfl, hm, by simp [toPairs, Spec.shownOf]⟩
  | cons r rs ih =>
    intro m hm hcap
    obtain ⟨v1, v2, h1, h2, hsrc, hf⟩ := rangeFeed12_spec c m v w r hrep hc
      (hm ▸ hcap r List.mem_cons_self)
    obtain ⟨m2, fs, hfs, hm2, hfl⟩ := ih _ (hsrc.trans hm)
      (fun r' hr' => hcap r' (List.mem_cons_of_mem _ hr'))
    rw [hm] at hf
    refine ⟨m2, (spec12Iterate c m v2.spec v2.start.toNat ((r.stop - r.start).toNat + 2)).2 :: fs,
      ?_, hm2, ?_⟩
    · unfold fprintFeeds12
      rw [h1]
      simp only
      rw [h2]
      simp only
      rw [hfs]
    · rw [List.flatten_cons, hfl, hf, FP.toPairs_cons, FP.shownOf_cons]

end FP12

open ViewL in
/-- the feeds handed to the printer (v1 / v2) are the requested existing positions, range by range -/
theorem fprint12_feeds_spec (c : MemoCfg) (m : Memo) (v : Val12) (chain : List ViewOp) (e : Int)
    (ranges : List PRange)
    (hv : applyChain12 (.num .memo e) chain = some v)
    (hnorm : Spec.NormalRanges (toPairs ranges)) (hfit : FitsRanges c m.src ranges) :
    ∃ m' feeds, fprintFeeds12 c m v ranges = some (m', feeds) ∧ m'.src = m.src ∧
      feeds.flatten = Spec.shownOf m.src.len m.src.digit (Spec.winOf (chain.map toSpecOp)) (toPairs ranges) ∧
      StrictAsc feeds.flatten := by
  obtain ⟨hc, _, hcap⟩ := hfit
  have hrep := chain12 chain _ v {} (⟨rfl, rfl⟩ : Rep12 (.num .memo e) {}) hv
  have hcaps : ∀ r ∈ ranges, FP.CapLim c m.src r.stop := by
    intro r hr
    unfold FP.CapLim
    cases hl : m.src.len with
    | none => rw [hl] at hcap; simp only at hcap ⊢; have := hcap r hr; omega
    | some L => rw [hl] at hcap; exact hcap
  obtain ⟨m', feeds, h1, h2, h3⟩ := FP12.feeds_spec c m.src v _ hrep hc ranges m rfl hcaps
  refine ⟨m', feeds, h1, h2, h3, ?_⟩
  rw [h3]
  exact FP.shownOf_asc _ _ _ _ ((normal_iff ranges).1 hnorm).2

/-- I. v1 / v2 `Fprint` end to end (the analogue of `fprint_is_layout`) -/
theorem fprint12_is_layout (ver : Version) (c : MemoCfg) (m : Memo) (v : Val12) (chain : List ViewOp) (e : Int)
    (ranges : List PRange) (s : PSettings) (w : Nat → List Nat → Nat × Bool × Nat) (st : Nat) (hw : Reliable w)
    (hv : applyChain12 (.num .memo e) chain = some v)
    (hnorm : Spec.NormalRanges (toPairs ranges)) (hfit : FitsRanges c m.src ranges)
    (hd : ∀ p, m.src.digit p ≤ 9) :
    ∃ r, fprint12 ver c m { w := w, st := st } s v ranges = some (.ok r) ∧
      r.accepted = Spec.layout (toPOpts ver s (positionsEnd ranges))
        (Spec.shownOf m.src.len m.src.digit (Spec.winOf (chain.map toSpecOp)) (toPairs ranges)) ∧
      r.written = r.accepted.length ∧ r.err = false := by
  obtain ⟨m', feeds, h1, _, h3, h4⟩ := fprint12_feeds_spec c m v chain e ranges hv hnorm hfit
  have hd' : ∀ x ∈ feeds.flatten, x.2 ≤ 9 := by
    intro x hx
    rw [h3] at hx
    rw [(FP.mem_shownOf _ _ _ _ x hx).1]
    exact hd _
  obtain ⟨r, hr, hacc, hwr, herr, _⟩ :=
    print_layout ver s (positionsEnd ranges) feeds w st hw h4 hd'
  refine ⟨r, ?_, ?_, hwr, herr⟩
  · unfold fprint12
    rw [h1]
    simp only
    rw [hr]
  · rw [hacc, h3]

namespace FR12

/-- feeding a printer that cannot consume returns it unchanged -/
theorem feed_dead (pr : Printer) (xs : List (Nat × Nat)) (hd : pr.raw.canConsume = false) :
    pr.feed xs = .ok pr := by
  cases xs with
  | nil => rfl
  | cons x rest =>
    obtain ⟨p, d⟩ := x
    unfold Printer.feed
    rw [if_pos (by simp [hd])]

/-- folding feeds over a printer that cannot consume returns it unchanged -/
theorem foldlM_feed_dead (pr : Printer) (hd : pr.raw.canConsume = false) :
    ∀ feeds : List (List (Nat × Nat)),
      feeds.foldlM (fun pr f => Printer.feed pr f) pr = .ok pr := by
  intro feeds
  induction feeds with
  | nil => rfl
  | cons f fs ih =>
    rw [List.foldlM_cons, feed_dead pr f hd]
    exact ih

/-- the early-exit run leaves a printer that cannot consume unchanged -/
theorem ranges_dead (c : MemoCfg) (m : Memo) (pr : Printer) (v : Val12) (rs : List PRange)
    (hd : pr.raw.canConsume = false) (m' : Memo) (pr' : Printer)
    (h : rangesFault12 c m pr v rs = some (.ok (m', pr'))) : pr' = pr := by
  have herr : pr.raw.err = true := by simpa [RawPrinter.canConsume] using hd
  have := ranges_after_error12 c m pr v rs herr (m', pr') h
  simp only [Prod.mk.injEq] at this
  exact this.2

/-- the ranges, generalised over the printer and the memoizer state: the printer the early-exit run
ends with is the fold of `Printer.feed` over the feeds of the plain run -/
theorem ranges_fold (c : MemoCfg) (v : Val12) :
    ∀ (rs : List PRange) (m : Memo) (pr : Printer) (m' : Memo) (prF : Printer) (mm : Memo)
      (feeds : List (List (Nat × Nat))),
      rangesFault12 c m pr v rs = some (.ok (m', prF)) →
      fprintFeeds12 c m v rs = some (mm, feeds) →
      feeds.foldlM (fun pr f => Printer.feed pr f) pr = .ok prF := by
  intro rs
  induction rs with
  | nil =>
    intro m pr m' prF mm feeds h h0
    simp only [rangesFault12, Option.some.injEq, Except.ok.injEq, Prod.mk.injEq] at h
    simp only [fprintFeeds12, Option.some.injEq, Prod.mk.injEq] at h0
    rw [← h0.2, ← h.2]
    rfl
  | cons r rs ih =>
    intro m pr m' prF mm feeds h h0
    unfold fprintFeeds12 at h0
    split at h0
    · rename_i v1 hv1
      split at h0
      · rename_i v2 hv2
        simp only at h0
        split at h0
        · cases h0
        · rename_i mB fs hB
          simp only [Option.some.injEq, Prod.mk.injEq] at h0
          obtain ⟨-, rfl⟩ := h0
          unfold rangesFault12 at h
          split at h
          · cases h
          · cases h
          · rename_i m1 pr1 h1
            rw [List.foldlM_cons]
            unfold rangeFault12 at h1
            rw [hv1] at h1
            simp only at h1
            rw [hv2] at h1
            simp only at h1
            by_cases hcan : pr.raw.canConsume = true
            · rw [if_neg (by simp [hcan])] at h1
              split at h1
              · cases h1
              · rename_i pr2 hfeed
                rw [hfeed]
                split at h1
                · simp only [Option.some.injEq, Except.ok.injEq, Prod.mk.injEq] at h1
                  obtain ⟨rfl, rfl⟩ := h1
                  exact ih _ _ _ _ _ _ h hB
                · rename_i hdead
                  have hdead : pr2.raw.canConsume = false := by simpa using hdead
                  simp only [Option.some.injEq, Except.ok.injEq, Prod.mk.injEq] at h1
                  obtain ⟨rfl, rfl⟩ := h1
                  have := ranges_dead c _ _ v rs hdead m' prF h
                  rw [this]
                  exact foldlM_feed_dead _ hdead fs
            · have hdead : pr.raw.canConsume = false := by simpa using hcan
              rw [if_pos (by simp [hdead])] at h1
              simp only [Option.some.injEq, Except.ok.injEq, Prod.mk.injEq] at h1
              obtain ⟨rfl, rfl⟩ := h1
              have := ranges_dead c _ _ v rs hdead m' prF h
              rw [this, feed_dead _ _ hdead]
              exact foldlM_feed_dead _ hdead fs
      · cases h0
    · cases h0

end FR12

/-- J. the early-exit run of v1 / v2 returns the PrintResult of the plain run -/
theorem fprintFault12_result_eq (ver : Version) (c : MemoCfg) (m : Memo) (sink : Sink) (s : PSettings) (v : Val12)
    (ranges : List PRange) (r : PrintResult) (m' : Memo) (r0 : PrintResult)
    (h : fprintFault12 ver c m sink s v ranges = some (.ok (r, m')))
    (h0 : fprint12 ver c m sink s v ranges = some (.ok r0)) :
    r = r0 := by
  unfold fprint12 at h0
  split at h0
  · cases h0
  · rename_i mm feeds hfeeds
    unfold fprintFault12 at h
    split at h
    · cases h
    · cases h
    · rename_i mF prF hF
      have hfold := FR12.ranges_fold c v ranges m _ mF prF mm feeds hF hfeeds
      simp only [Option.some.injEq] at h0
      unfold printRun at h0
      rw [hfold] at h0
      split at h
      · cases h
      · rename_i raw hraw
        simp only [Option.some.injEq, Except.ok.injEq, Prod.mk.injEq] at h
        simp only [bind, Except.bind, hraw, pure, Except.pure, Except.ok.injEq] at h0
        rw [← h.1, ← h0]

end Sqroot.Proofs

/-
Lemmas for C13 (test numbers, generator-backed numbers).
-/
import Sqroot.Model.Ctor
import Sqroot.Spec.Ctor
namespace Sqroot.Proofs
open Sqroot.Model

theorem outOfRange_iff (d : Int) : Gen.V3.digitOutOfRange d = !(Spec.isDigit d) := by
  unfold Gen.V3.digitOutOfRange Spec.isDigit
  by_cases h1 : d < 0 <;> by_cases h2 : d > 9 <;> simp [h1, h2] <;> omega

theorem validDigits_iff (xs : List Int) : validDigits xs = xs.all Spec.isDigit := by
  unfold validDigits
  congr 1
  funext d
  simp [outOfRange_iff]

theorem repStream_spec (fixed rep : List Int) (p : Nat) :
    Spec.fixedThenRepeating fixed rep p =
      (if p < fixed.length ∨ rep.length ≠ 0 then some (repStream fixed rep p) else none) := by
  unfold Spec.fixedThenRepeating repStream
  by_cases h1 : p < fixed.length
  · simp [h1, List.getD_eq_getElem?_getD]
  · by_cases h2 : rep.length = 0
    · simp [h1, h2]
    · have hlt : (p - fixed.length) % rep.length < rep.length := Nat.mod_lt _ (by omega)
      simp [h1, h2, List.getD_eq_getElem?_getD, List.getElem?_eq_getElem hlt]

theorem streamDigit_spec (stream : Nat → Int) (p : Nat) :
    streamDigit stream p = Spec.validPrefixDigit stream p := by
  unfold streamDigit Spec.validPrefixDigit
  simp [outOfRange_iff]

/-- first value of the repeating generator = head of fixed ++ rep -/
theorem repStream_zero (fixed rep : List Int) (h : ¬ (fixed.length = 0 ∧ rep.length = 0)) :
    some (repStream fixed rep 0) = (fixed ++ rep).head? := by
  unfold repStream
  cases fixed with
  | nil =>
    cases rep with
    | nil => simp at h
    | cons r rs => simp
  | cons f fs => simp

end Sqroot.Proofs

namespace Sqroot.Proofs
open Sqroot.Model

/-- relation between what the constructor returns and what the specification demands -/
def OutcomeMatches (fixed rep : List Int) (exp : Int) : CtorResult → Spec.TestOutcome → Prop
  | .zero, .zero => True
  | .error _, .error => True
  | .number fin stream e, .number fin' =>
    fin = fin' ∧ e = exp ∧ ∀ p, streamDigit stream p = Spec.fixedThenRepeating fixed rep p
  | _, _ => False

theorem all_isDigit_append (a b : List Int) :
    ((a ++ b).any fun d => !Spec.isDigit d) = (!(a.all Spec.isDigit) || !(b.all Spec.isDigit)) := by
  induction a with
  | nil => simp [List.any_eq_not_all_not]
  | cons x xs ih =>
    simp only [List.cons_append, List.any_cons, List.all_cons, ih]
    cases Spec.isDigit x <;> simp

/-- every value of the repeating stream at a position that exists is one of the given digits -/
theorem repStream_mem (fixed rep : List Int) (p : Nat) (h : p < fixed.length ∨ rep.length ≠ 0) :
    repStream fixed rep p ∈ fixed ++ rep := by
  unfold repStream
  by_cases h1 : p < fixed.length
  · simp only [h1, if_true, List.getD_eq_getElem?_getD, List.getElem?_eq_getElem h1, Option.getD_some]
    exact List.mem_append_left _ (List.getElem_mem h1)
  · have h2 : rep.length ≠ 0 := by cases h with | inl h => exact absurd h h1 | inr h => exact h
    have hlt : (p - fixed.length) % rep.length < rep.length := Nat.mod_lt _ (by omega)
    simp only [h1, if_false, h2, List.getD_eq_getElem?_getD, List.getElem?_eq_getElem hlt, Option.getD_some]
    exact List.mem_append_right _ (List.getElem_mem hlt)

theorem test_number_outcome (fixed rep : List Int) (exp : Int) :
    OutcomeMatches fixed rep exp (newNumberForTesting fixed rep exp) (Spec.testOutcome fixed rep) := by
  by_cases hE : fixed.length = 0 ∧ rep.length = 0
  · have hE2 : fixed = [] ∧ rep = [] :=
      ⟨List.length_eq_zero_iff.mp hE.1, List.length_eq_zero_iff.mp hE.2⟩
    have hN : newNumberForTesting fixed rep exp = .zero := by
      unfold newNumberForTesting; rw [if_pos hE]
    have hT : Spec.testOutcome fixed rep = .zero := by
      unfold Spec.testOutcome; rw [if_pos hE2]
    rw [hN, hT]; exact True.intro
  · have hE' : ¬ (fixed = [] ∧ rep = []) := by
      intro h; exact hE ⟨by simp [h.1], by simp [h.2]⟩
    have hhead := repStream_zero fixed rep hE
    by_cases hV : (!(validDigits fixed) || !(validDigits rep)) = true
    · have hN : newNumberForTesting fixed rep exp =
          .error "NewNumberForTesting: digits must be between 0 and 9" := by
        unfold newNumberForTesting; rw [if_neg hE, if_pos hV]
      have hT : Spec.testOutcome fixed rep = .error := by
        unfold Spec.testOutcome
        rw [if_neg hE', if_pos]
        left
        rw [all_isDigit_append, ← validDigits_iff, ← validDigits_iff]; exact hV
      rw [hN, hT]; exact True.intro
    · have hV' : (!(fixed.all Spec.isDigit) || !(rep.all Spec.isDigit)) = false := by
        rw [← validDigits_iff, ← validDigits_iff]
        exact Bool.eq_false_iff.mpr hV
      have hVany : ¬ ((fixed ++ rep).any (fun d => !Spec.isDigit d)) = true := by
        rw [all_isDigit_append, hV']; exact Bool.false_ne_true
      by_cases hZ : repStream fixed rep 0 = 0
      · have hN : newNumberForTesting fixed rep exp =
            .error "NewNumberForTesting: leading zeros not allowed in digits" := by
          unfold newNumberForTesting; rw [if_neg hE, if_neg hV, if_pos hZ]
        have hT : Spec.testOutcome fixed rep = .error := by
          unfold Spec.testOutcome
          rw [if_neg hE', if_pos]
          right
          rw [← hhead, hZ]
        rw [hN, hT]; exact True.intro
      · have hne : (fixed ++ rep).head? ≠ some 0 := by
          rw [← hhead]; intro h; exact hZ (Option.some.inj h)
        have hall : ∀ d ∈ fixed ++ rep, Spec.isDigit d = true := by
          intro d hd
          simp only [Bool.or_eq_false_iff, Bool.not_eq_false'] at hV'
          rcases List.mem_append.mp hd with h | h
          · exact List.all_eq_true.mp hV'.1 d h
          · exact List.all_eq_true.mp hV'.2 d h
        -- digits exposed by the memoizer over the stream
        have hdig : ∀ p, streamDigit (repStream fixed rep) p = Spec.fixedThenRepeating fixed rep p := by
          intro p
          rw [streamDigit_spec, repStream_spec]
          unfold Spec.validPrefixDigit
          by_cases hp : p < fixed.length ∨ rep.length ≠ 0
          · have : (List.range (p + 1)).all (fun j => Spec.isDigit (repStream fixed rep j)) = true := by
              apply List.all_eq_true.mpr
              intro j hj
              have hj' : j ≤ p := by have := List.mem_range.mp hj; omega
              apply hall
              apply repStream_mem
              rcases hp with hp | hp
              · left; omega
              · right; exact hp
            rw [if_pos this, if_pos hp]
          · have hp1 : ¬ p < fixed.length := fun h => hp (Or.inl h)
            have hp2 : rep.length = 0 := by
              by_cases h : rep.length = 0
              · exact h
              · exact absurd (Or.inr h) hp
            have hbad : Spec.isDigit (repStream fixed rep fixed.length) = false := by
              unfold repStream; simp [hp2, Spec.isDigit]
            have : ¬ (List.range (p + 1)).all (fun j => Spec.isDigit (repStream fixed rep j)) = true := by
              intro hall'
              have := List.all_eq_true.mp hall' fixed.length (List.mem_range.mpr (by omega))
              rw [hbad] at this; exact Bool.noConfusion this
            rw [if_neg this, if_neg hp]
        have hTerr : ¬ (((fixed ++ rep).any (fun d => !Spec.isDigit d)) = true ∨
            (fixed ++ rep).head? = some 0) := by
          intro h; rcases h with h | h
          · exact hVany h
          · exact hne h
        by_cases hR : rep.length = 0
        · have hR2 : rep = [] := List.length_eq_zero_iff.mp hR
          have hN : newNumberForTesting fixed rep exp = .number true (repStream fixed rep) exp := by
            unfold newNumberForTesting; rw [if_neg hE, if_neg hV, if_neg hZ, if_pos hR]
          have hT : Spec.testOutcome fixed rep = .number true := by
            unfold Spec.testOutcome
            rw [if_neg hE', if_neg hTerr]
            simp [hR2]
          rw [hN, hT]
          exact ⟨rfl, rfl, hdig⟩
        · have hR2 : rep ≠ [] := fun h => hR (by simp [h])
          have hN : newNumberForTesting fixed rep exp = .number false (repStream fixed rep) exp := by
            unfold newNumberForTesting; rw [if_neg hE, if_neg hV, if_neg hZ, if_neg hR]
          have hT : Spec.testOutcome fixed rep = .number false := by
            unfold Spec.testOutcome
            rw [if_neg hE', if_neg hTerr]
            simp [hR2]
          rw [hN, hT]
          exact ⟨rfl, rfl, hdig⟩

/-- `NewNumber(g)`: zero iff the first value is 0 or out of range; otherwise exactly the longest
prefix of in-range values, with g's exponent; values after the first bad one never matter -/
theorem new_number_outcome (stream : Nat → Int) (exp : Int) :
    match newNumber stream exp with
    | .zero => stream 0 = 0 ∨ Spec.isDigit (stream 0) = false
    | .number fin s e => fin = false ∧ e = exp ∧ (1 ≤ stream 0 ∧ stream 0 ≤ 9) ∧
        ∀ p, streamDigit s p = Spec.validPrefixDigit stream p
    | .error _ => False := by
  by_cases h : stream 0 = 0 ∨ Gen.V3.digitOutOfRange (stream 0) = true
  · have hN : newNumber stream exp = .zero := by unfold newNumber; rw [if_pos h]
    rw [hN]
    show stream 0 = 0 ∨ Spec.isDigit (stream 0) = false
    rcases h with h | h
    · exact Or.inl h
    · right; rw [outOfRange_iff] at h; simpa using h
  · have hN : newNumber stream exp = .number false stream exp := by
      unfold newNumber; rw [if_neg h]
    rw [hN]
    show false = false ∧ exp = exp ∧ (1 ≤ stream 0 ∧ stream 0 ≤ 9) ∧
        ∀ p, streamDigit stream p = Spec.validPrefixDigit stream p
    refine ⟨rfl, rfl, ?_, fun p => streamDigit_spec stream p⟩
    have h1 : stream 0 ≠ 0 := fun e => h (Or.inl e)
    have h2 : Gen.V3.digitOutOfRange (stream 0) = false := by
      cases hh : Gen.V3.digitOutOfRange (stream 0)
      · rfl
      · exact absurd (Or.inr hh) h
    rw [outOfRange_iff] at h2
    have : Spec.isDigit (stream 0) = true := by simpa using h2
    unfold Spec.isDigit at this
    have := of_decide_eq_true this
    omega

end Sqroot.Proofs

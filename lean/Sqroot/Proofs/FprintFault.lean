/-
C12, "stop consuming digits promptly after the fault": the requests `Fprint` / `Fwrite` make to the
memoizer when the writer fails (Model/Fprint.lean: `rangeFault3`, `rangesFault3`, `fprintFault3`).
-/
import Sqroot.Model.Fprint
import Sqroot.Proofs.MemoDemand
import Sqroot.Proofs.Fprint
namespace Sqroot.Proofs
open Sqroot.Model

/-- demand (in whole blocks) that delivering position `q` needs -/
def blockUp (c : MemoCfg) (q : Nat) : Nat := c.chunk * (q / c.chunk + 1)

namespace FF

theorem blockUp_mono (c : MemoCfg) {i j : Nat} (h : i ≤ j) : blockUp c i ≤ blockUp c j :=
  Nat.mul_le_mul_left _ (Nat.succ_le_succ (Nat.div_le_div_right h))

/-- `wait(i)` leaves the demand alone or sets it to at most what position `i` needs -/
theorem wait_blockUp (c : MemoCfg) (m : Memo) (i : Nat) :
    (m.wait c i).1.maxLength = m.maxLength ∨ (m.wait c i).1.maxLength ≤ blockUp c i := by
  unfold Memo.wait
  simp only
  split
  · right
    exact Nat.mul_le_mul_left _ (Nat.min_le_left _ _)
  · left; rfl

theorem wait_blockUp_le (c : MemoCfg) (m : Memo) (i B : Nat) (h : m.maxLength ≤ max B (blockUp c i)) :
    (m.wait c i).1.maxLength ≤ max B (blockUp c i) := by
  rcases wait_blockUp c m i with h1 | h1 <;> omega

/-- the `Scan` loop with a consumer that takes all `take` items it wanted: the demand on exit is
bounded by the block of the LAST delivered position -/
theorem scanLoop_exact (c : MemoCfg) (limit : Int) (B : Nat) :
    ∀ (take : Nat) (m : Memo) (index snap : Nat) (ok : Bool) (acc : List (Nat × Nat))
      (m' : Memo) (xs : List (Nat × Nat)),
      0 < take → m.maxLength ≤ max B (blockUp c index) →
      Memo.scanLoop c take m index limit snap ok acc = (m', xs) →
      xs.length = acc.length + take →
      ∃ q d, xs.getLast? = some (q, d) ∧ m'.maxLength ≤ max B (blockUp c q) := by
  intro take
  induction take with
  | zero => intro _ _ _ _ _ _ _ h; omega
  | succ take ih =>
    intro m index snap ok acc m' xs _ hB hs hlen
    unfold Memo.scanLoop at hs
    split at hs
    · simp only [Prod.mk.injEq] at hs
      rw [← hs.2] at hlen
      simp at hlen
    · simp only at hs
      split at hs
      · simp only [Prod.mk.injEq] at hs
        refine ⟨index, m.src.digit index, ?_, ?_⟩
        · rw [← hs.2]; simp
        · rw [← hs.1]; exact hB
      · rename_i ht
        have hB1 : m.maxLength ≤ max B (blockUp c (index + 1)) := by
          have : blockUp c index ≤ blockUp c (index + 1) := blockUp_mono c (Nat.le_succ index)
          omega
        have hlen' : xs.length = ((index, m.src.digit index) :: acc).length + take := by
          simp only [List.length_cons]; omega
        split at hs
        · exact ih _ _ _ _ _ m' xs (by omega) (wait_blockUp_le c m (index + 1) B hB1) hs hlen'
        · exact ih _ _ _ _ _ m' xs (by omega) hB1 hs hlen'

/-- every item the `Scan` loop adds lies in `[index, limit)` -/
theorem scanLoop_mem (c : MemoCfg) (limit : Int) :
    ∀ (take : Nat) (m : Memo) (index snap : Nat) (ok : Bool) (acc : List (Nat × Nat))
      (m' : Memo) (xs : List (Nat × Nat)),
      Memo.scanLoop c take m index limit snap ok acc = (m', xs) →
      ∀ x ∈ xs, x ∈ acc ∨ (index ≤ x.1 ∧ (x.1 : Int) < limit) := by
  intro take
  induction take with
  | zero =>
    intro m index snap ok acc m' xs hs x hx
    simp only [Memo.scanLoop, Prod.mk.injEq] at hs
    rw [← hs.2] at hx
    exact Or.inl (by simpa using hx)
  | succ take ih =>
    intro m index snap ok acc m' xs hs x hx
    unfold Memo.scanLoop at hs
    split at hs
    · simp only [Prod.mk.injEq] at hs
      rw [← hs.2] at hx
      exact Or.inl (by simpa using hx)
    · rename_i hcont
      simp only [Bool.or_eq_true, Bool.not_eq_true', decide_eq_true_eq, not_or] at hcont
      have hlim : (index : Int) < limit := by omega
      simp only at hs
      have fin : x ∈ (index, m.src.digit index) :: acc ∨ (index + 1 ≤ x.1 ∧ (x.1 : Int) < limit) →
          x ∈ acc ∨ (index ≤ x.1 ∧ (x.1 : Int) < limit) := by
        intro h
        rcases h with h | h
        · rcases List.mem_cons.1 h with h | h
          · right; rw [h]; exact ⟨Nat.le_refl _, hlim⟩
          · exact Or.inl h
        · right; omega
      split at hs
      · simp only [Prod.mk.injEq] at hs
        rw [← hs.2] at hx
        exact fin (Or.inl (by simpa [or_comm] using hx))
      · split at hs
        · exact fin (ih _ _ _ _ _ m' xs hs x hx)
        · exact fin (ih _ _ _ _ _ m' xs hs x hx)

/-- every item `Scan(index, limit)` delivers lies in `[index, limit)` -/
theorem scan_mem (c : MemoCfg) (m : Memo) (index limit : Int) (take : Nat)
    (m' : Memo) (xs : List (Nat × Nat)) (hs : m.scan c index limit take = .ok (m', xs)) :
    ∀ x ∈ xs, index ≤ (x.1 : Int) ∧ (x.1 : Int) < limit := by
  intro x hx
  unfold Memo.scan at hs
  split at hs
  · cases hs
  · split at hs
    · simp only [Except.ok.injEq, Prod.mk.injEq] at hs
      rw [← hs.2] at hx; cases hx
    · simp only [Except.ok.injEq] at hs
      rcases scanLoop_mem c limit take _ _ _ _ [] m' xs hs x hx with h | h
      · cases h
      · omega

/-- determinism: a consumer that leaves after `j` items gets `j` items whenever a more patient one
gets at least `j` -/
theorem scanLoop_len_prefix (c : MemoCfg) (limit : Int) :
    ∀ (j n : Nat) (m : Memo) (index snap : Nat) (ok : Bool) (acc : List (Nat × Nat)),
      acc.length + j ≤ (Memo.scanLoop c n m index limit snap ok acc).2.length →
      (Memo.scanLoop c j m index limit snap ok acc).2.length = acc.length + j := by
  intro j
  induction j with
  | zero => intro n m index snap ok acc _; simp [Memo.scanLoop]
  | succ j ih =>
    intro n m index snap ok acc hlen
    cases n with
    | zero => simp only [Memo.scanLoop, List.length_reverse] at hlen; omega
    | succ n =>
    unfold Memo.scanLoop at hlen ⊢
    by_cases hstop : (!ok || decide ((index : Int) ≥ limit)) = true
    · rw [if_pos hstop] at hlen
      simp only [List.length_reverse] at hlen
      omega
    · rw [if_neg hstop] at hlen ⊢
      simp only at hlen ⊢
      by_cases hj : j = 0
      · simp [hj]
      · rw [if_neg hj]
        by_cases hn : n = 0
        · rw [if_pos hn] at hlen
          simp only [List.length_reverse, List.length_cons] at hlen
          omega
        rw [if_neg hn] at hlen
        have hl : ∀ (m2 : Memo) (snap2 : Nat) (ok2 : Bool),
            acc.length + (j + 1) ≤ (Memo.scanLoop c n m2 (index + 1) limit snap2 ok2
              ((index, m.src.digit index) :: acc)).2.length →
            (Memo.scanLoop c j m2 (index + 1) limit snap2 ok2
              ((index, m.src.digit index) :: acc)).2.length = acc.length + (j + 1) := by
          intro m2 snap2 ok2 h
          rw [ih n m2 (index + 1) snap2 ok2 _ (by simp only [List.length_cons]; omega)]
          simp only [List.length_cons]; omega
        by_cases hsn : index + 1 = snap
        · rw [if_pos hsn] at hlen ⊢
          exact hl _ _ _ hlen
        · rw [if_neg hsn] at hlen ⊢
          exact hl _ _ _ hlen

theorem scan_len_prefix (c : MemoCfg) (m : Memo) (index limit : Int) (j n : Nat)
    (mn mj : Memo) (xs ys : List (Nat × Nat))
    (hn : m.scan c index limit n = .ok (mn, xs)) (hj : m.scan c index limit j = .ok (mj, ys))
    (hlen : j ≤ xs.length) : ys.length = j := by
  unfold Memo.scan at hn hj
  split at hn
  · cases hn
  · rename_i hi
    rw [if_neg hi] at hj
    split at hj
    · rename_i h0
      simp only [Except.ok.injEq, Prod.mk.injEq] at hj
      rw [← hj.2, h0]; rfl
    · rename_i h0
      split at hn
      · simp only [Except.ok.injEq, Prod.mk.injEq] at hn
        rw [← hn.2] at hlen
        simp only [List.length_nil] at hlen
        omega
      · simp only [Except.ok.injEq] at hn hj
        have := scanLoop_len_prefix c limit j n (m.wait c index.toNat).1 index.toNat
          (m.wait c index.toNat).2.1 (m.wait c index.toNat).2.2 [] (by rw [hn]; simpa using hlen)
        rw [hj] at this
        simpa using this

theorem forward_len_prefix (c : MemoCfg) (m : Memo) (v : Val3) (j n : Nat)
    (mn mj : Memo) (xs ys : List (Nat × Nat))
    (hn : v.forward c m n = .ok (mn, xs)) (hj : v.forward c m j = .ok (mj, ys))
    (hlen : j ≤ xs.length) : ys.length = j := by
  unfold Val3.forward at hn hj
  cases hsp : v.spec with
  | nil =>
    rw [hsp] at hn hj
    simp only [specScan, Except.ok.injEq, Prod.mk.injEq] at hn hj
    rw [← hn.2] at hlen
    rw [← hj.2]
    simp only [List.length_nil] at hlen ⊢
    omega
  | memo =>
    rw [hsp] at hn hj
    exact scan_len_prefix c m _ _ j n mn mj xs ys hn hj hlen
  | limited l =>
    rw [hsp] at hn hj
    exact scan_len_prefix c m _ _ j n mn mj xs ys hn hj hlen

/-- `WithStart(s)` never moves the start below `s` -/
theorem withStart_start (v v1 : Val3) (s : Int) (h : v.apply (.withStart s) = some (.ok v1)) :
    s ≤ v1.start := by
  cases v <;> simp only [Val3.apply, Option.some.injEq, Except.ok.injEq] at h <;> subst h <;>
    split <;> simp only [Val3.start] <;> omega

/-- `WithEnd(e)` keeps the start and leaves an empty value or a limit of at most `e` -/
theorem withEnd_window (v v2 : Val3) (e : Int) (h : v.apply (.withEnd e) = some (.ok v2)) :
    v2.start = v.start ∧ (v2.spec = .nil ∨ ∃ l, v2.spec = .limited l ∧ l ≤ e) := by
  have hwl : ∀ sp : VSpec,
      (let r := withLimit sp e
       (if r.2 = true then sp else r.1) = .nil ∨ ∃ l, (if r.2 = true then sp else r.1) = .limited l ∧ l ≤ e) := by
    intro sp
    by_cases he : e ≤ 0
    · cases sp <;> simp [withLimit, he]
    · cases sp with
      | nil => simp [withLimit, he]
      | memo => simp [withLimit, he]
      | limited l =>
        by_cases hge : e ≥ l
        · simp [withLimit, he, hge]
        · simp [withLimit, he, hge]
  have hf : ∀ (sp : VSpec) (ex : Int), (fnumWithSpec sp ex (withLimit sp e)).start = 0 ∧
      ((fnumWithSpec sp ex (withLimit sp e)).spec = .nil ∨
        ∃ l, (fnumWithSpec sp ex (withLimit sp e)).spec = .limited l ∧ l ≤ e) := by
    intro sp ex
    have := hwl sp
    simp only at this
    unfold fnumWithSpec
    by_cases h2 : (withLimit sp e).2 = true
    · rw [if_pos h2] at this ⊢
      exact ⟨rfl, this⟩
    · rw [if_neg h2] at this ⊢
      by_cases h1 : (withLimit sp e).1 = .nil
      · rw [if_pos h1]; exact ⟨rfl, Or.inl rfl⟩
      · rw [if_neg h1]; exact ⟨rfl, this⟩
  have hm : ∀ (sp : VSpec) (st : Int),
      (if (withLimit sp e).2 = true then Val3.mws sp st else Val3.mws (withLimit sp e).1 st).start = st ∧
      ((if (withLimit sp e).2 = true then Val3.mws sp st else Val3.mws (withLimit sp e).1 st).spec = .nil ∨
        ∃ l, (if (withLimit sp e).2 = true then Val3.mws sp st else Val3.mws (withLimit sp e).1 st).spec
          = .limited l ∧ l ≤ e) := by
    intro sp st
    have := hwl sp
    simp only at this
    by_cases h2 : (withLimit sp e).2 = true
    · rw [if_pos h2] at this ⊢; exact ⟨rfl, this⟩
    · rw [if_neg h2] at this ⊢; exact ⟨rfl, this⟩
  cases v with
  | fnum sp ex =>
    simp only [Val3.apply, Option.some.injEq, Except.ok.injEq] at h
    subst h; exact hf sp ex
  | opqN sp ex =>
    simp only [Val3.apply, Option.some.injEq, Except.ok.injEq] at h
    subst h; exact hf sp ex
  | mws sp st =>
    simp only [Val3.apply, Option.some.injEq, Except.ok.injEq] at h
    subst h; exact hm sp st
  | opqS sp st =>
    simp only [Val3.apply, Option.some.injEq, Except.ok.injEq] at h
    subst h; exact hm sp st

/-- positions delivered by a value whose limit is at most `e` -/
theorem forward_mem (c : MemoCfg) (m : Memo) (v : Val3) (e : Int) (take : Nat)
    (m' : Memo) (xs : List (Nat × Nat)) (hs : v.forward c m take = .ok (m', xs))
    (hsp : v.spec = .nil ∨ ∃ l, v.spec = .limited l ∧ l ≤ e) :
    ∀ x ∈ xs, v.start ≤ (x.1 : Int) ∧ (x.1 : Int) < e := by
  intro x hx
  unfold Val3.forward at hs
  rcases hsp with hsp | ⟨l, hsp, hle⟩
  · rw [hsp] at hs
    simp only [specScan, Except.ok.injEq, Prod.mk.injEq] at hs
    rw [← hs.2] at hx; cases hx
  · rw [hsp] at hs
    simp only [specScan] at hs
    have := scan_mem c m _ _ take m' xs hs x hx
    omega

/-- `printer.Consume` does not touch the ghost counter -/
theorem pconsume_pulled (pr pr' : Printer) (p : Int) (d : Nat) (h : pr.consume p d = .ok pr') :
    pr'.pulled = pr.pulled := by
  rw [Prt.pconsume_eq] at h
  obtain ⟨raw1, _, h⟩ := Prt.bind_ok h
  obtain ⟨raw2, _, h⟩ := Prt.bind_ok h
  cases h; rfl

/-- `fromFiniteSequence` pulls at most the whole feed, and at least one item if it latches an error -/
theorem feed_pulled : ∀ (xs : List (Nat × Nat)) (pr pr' : Printer), pr.feed xs = .ok pr' →
    pr.pulled ≤ pr'.pulled ∧ pr'.pulled ≤ pr.pulled + xs.length ∧
      (pr.raw.err = false → pr'.raw.err = true → pr.pulled < pr'.pulled) := by
  intro xs
  induction xs with
  | nil =>
    intro pr pr' h
    cases h
    exact ⟨Nat.le_refl _, Nat.le_refl _, fun h1 h2 => by rw [h1] at h2; cases h2⟩
  | cons x rest ih =>
    intro pr pr' h
    rw [Prt.feed_cons] at h
    split at h
    · cases h
      exact ⟨Nat.le_refl _, by omega, fun h1 h2 => by rw [h1] at h2; cases h2⟩
    · obtain ⟨pr1, h1, h2⟩ := Prt.bind_ok h
      have hp := pconsume_pulled pr pr1 _ _ h1
      have := ih _ _ h2
      simp only [List.length_cons] at this ⊢
      omega

end FF

/-- A. `Scan` left by its consumer after `take` delivered items: the demand is at most what
delivering the LAST item needs — leaving the loop requests nothing further. -/
theorem scan_early_exit_exact (c : MemoCfg) (m : Memo) (index limit : Int) (take : Nat) (hidx : 0 ≤ index)
    (m' : Memo) (xs : List (Nat × Nat)) (hs : m.scan c index limit take = .ok (m', xs))
    (hfull : xs.length = take) (hpos : 0 < take) :
    ∃ q d, xs.getLast? = some (q, d) ∧ m'.maxLength ≤ max m.maxLength (blockUp c q) := by
  have _ := hidx
  unfold Memo.scan at hs
  split at hs
  · cases hs
  · rw [if_neg (by omega)] at hs
    simp only [Except.ok.injEq] at hs
    refine FF.scanLoop_exact c limit m.maxLength take _ _ _ _ [] m' xs hpos ?_ hs (by simpa using hfull)
    exact FF.wait_blockUp_le c m index.toNat m.maxLength (by omega)

/-- A'. the same through any view value -/
theorem forward_early_exit_exact (c : MemoCfg) (m : Memo) (v : Val3) (take : Nat)
    (m' : Memo) (xs : List (Nat × Nat)) (hs : v.forward c m take = .ok (m', xs))
    (hfull : xs.length = take) (hpos : 0 < take) :
    ∃ q d, xs.getLast? = some (q, d) ∧ m'.maxLength ≤ max m.maxLength (blockUp c q) := by
  unfold Val3.forward specScan at hs
  have scanCase : ∀ (index limit : Int), m.scan c index limit take = .ok (m', xs) →
      ∃ q d, xs.getLast? = some (q, d) ∧ m'.maxLength ≤ max m.maxLength (blockUp c q) := by
    intro index limit h
    by_cases hi : index < 0
    · simp [Memo.scan, hi] at h
    · exact scan_early_exit_exact c m index limit take (by omega) m' xs h hfull hpos
  split at hs
  · simp only [Except.ok.injEq, Prod.mk.injEq] at hs
    rw [← hs.2] at hfull
    simp at hfull; omega
  · exact scanCase _ _ hs
  · exact scanCase _ _ hs

/-- B. once the printer has latched an error, the remaining ranges request nothing -/
theorem ranges_after_error (c : MemoCfg) (m : Memo) (pr : Printer) (v : Val3) (rs : List PRange)
    (herr : pr.raw.err = true) (res : Memo × Printer) (h : rangesFault3 c m pr v rs = some (.ok res)) :
    res = (m, pr) := by
  induction rs with
  | nil =>
    simp only [rangesFault3, Option.some.injEq, Except.ok.injEq] at h
    exact h.symm
  | cons r rs ih =>
    have hr : ∀ x, rangeFault3 c m pr v r = some (.ok x) → x = (m, pr) := by
      intro x hx
      unfold rangeFault3 at hx
      split at hx
      · split at hx
        · rw [if_pos (by simp [RawPrinter.canConsume, herr])] at hx
          simp only [Option.some.injEq, Except.ok.injEq] at hx
          exact hx.symm
        · cases hx
      · cases hx
    unfold rangesFault3 at h
    split at h
    · cases h
    · cases h
    · rename_i m1 pr1 h1
      have := hr _ h1
      simp only [Prod.mk.injEq] at this
      rw [this.1, this.2] at h
      exact ih h

/-- D. one range during which the error is latched: the demand afterwards is what delivering the
last digit handed to the printer needs, nothing more -/
theorem range_fault_prompt_stop (c : MemoCfg) (m : Memo) (pr : Printer) (v : Val3) (r : PRange)
    (m' : Memo) (pr' : Printer) (h : rangeFault3 c m pr v r = some (.ok (m', pr')))
    (hok : pr.raw.err = false) (herr : pr'.raw.err = true) :
    pr.pulled < pr'.pulled ∧
    ∃ q, m'.maxLength ≤ max m.maxLength (blockUp c q) ∧ (r.start ≤ (q : Int)) ∧ ((q : Int) < r.stop) := by
  unfold rangeFault3 at h
  split at h
  · rename_i v1 hv1
    split at h
    · rename_i v2 hv2
      rw [if_neg (by simp [RawPrinter.canConsume, hok])] at h
      split at h
      · cases h
      · rename_i mFull xs hfw
        split at h
        · cases h
        · rename_i pr1 hfeed
          split at h
          · rename_i hcan
            simp only [Option.some.injEq, Except.ok.injEq, Prod.mk.injEq] at h
            rw [h.2] at hcan
            simp [RawPrinter.canConsume, herr] at hcan
          · split at h
            · cases h
            · rename_i mj ys hfj
              simp only [Option.some.injEq, Except.ok.injEq, Prod.mk.injEq] at h
              obtain ⟨rfl, rfl⟩ := h
              obtain ⟨hlo, hhi, hlt⟩ := FF.feed_pulled xs pr pr1 hfeed
              have hlt := hlt hok herr
              refine ⟨hlt, ?_⟩
              have hlen : ys.length = pr1.pulled - pr.pulled :=
                FF.forward_len_prefix c m v2 _ _ mFull mj xs ys hfw hfj (by omega)
              obtain ⟨q, d, hlast, hdem⟩ :=
                forward_early_exit_exact c m v2 _ mj ys hfj hlen (by omega)
              have hs1 := FF.withStart_start v v1 r.start hv1
              obtain ⟨hs2, hsp⟩ := FF.withEnd_window v1 v2 r.stop hv2
              have hmem := FF.forward_mem c m v2 r.stop _ mj ys hfj hsp (q, d)
                (List.mem_of_getLast? hlast)
              simp only at hmem
              exact ⟨q, hdem, by omega, hmem.2⟩
    · cases h
  · cases h

/-! ### D is not vacuous: a concrete run (evaluated in the kernel; the only step that is not plain
evaluation is `utf8 "0."`, because `ByteArray.toList` is defined by well-founded recursion) -/

namespace FF

theorem utf8_zero : utf8 "0." = [48, 46] := by
  have h : "0.".toUTF8 = ⟨#[48, 46]⟩ := by rfl
  unfold utf8
  rw [h]
  unfold ByteArray.toList
  rw [ByteArray.toList.loop, if_pos (by decide)]
  rw [ByteArray.toList.loop, if_pos (by decide)]
  rw [ByteArray.toList.loop, if_neg (by decide)]
  rfl

def exC : MemoCfg := ⟨4, 8⟩
def exM : Memo := { src := ⟨none, fun p => p % 10⟩ }
def exS : PSettings := ⟨0, 0, false, 46, 4, false, true⟩
def exPr : Printer := newPrinter .v3 { w := faultWriter 0 5 } 10 exS
def exV : Val3 := .fnum .memo 0
def exR : PRange := ⟨2, 9⟩
def exXs : List (Nat × Nat) := [(2, 2), (3, 3), (4, 4), (5, 5), (6, 6), (7, 7), (8, 8)]
/-- the raw printer after the first missing-digit mark: `0..` is in the buffer -/
def exRaw1 : RawPrinter :=
  { exPr.raw with w := { exPr.raw.w with buf := [48, 46, 46] }, index := 1, indexInRow := 1 }
/-- the rest of the feed after that first `rawPrinter.Consume` -/
def exRest (raw1 : RawPrinter) : Except Panic Printer :=
  gapLoop true 46 2 1 raw1 >>= fun raw => raw.consume (48 + ((2 : Nat) : Int)) >>= fun raw =>
    Printer.feed { exPr with raw := raw, pulled := 1 } exXs.tail

theorem ex_first : exPr.raw.consume 46 = .ok exRaw1 := by
  have hstart : exPr.raw.starter.start exPr.raw.w 0 = .ok ({ exPr.raw.w with buf := [48, 46] }, false) := by
    have hz : exPr.raw.starter.zeroString = "0." := by rfl
    unfold RowStarter.start
    rw [if_pos rfl, hz, utf8_zero]
    rfl
  rw [Prt.consume_eq, if_neg (by decide)]
  unfold Prt.prefixStep
  rw [if_pos (by rfl), hstart]
  rfl

theorem ex_feed : exPr.feed exXs = exRest exRaw1 := by
  unfold exXs
  rw [Prt.feed_cons, if_neg (by decide), Prt.pconsume_eq, if_pos (by decide)]
  have hg : gapLoop exPr.gapChecksErr exPr.missingDigit ((2, 2) : Nat × Nat).1
      (((((2, 2) : Nat × Nat).1 : Int) - (if exPr.raw.digitsPerRow > 0 ∧ exPr.raw.starter.countOn = true
            then exPr.raw.skipRowsFor ((2, 2) : Nat × Nat).1 else exPr.raw).index).toNat)
      (if exPr.raw.digitsPerRow > 0 ∧ exPr.raw.starter.countOn = true
            then exPr.raw.skipRowsFor ((2, 2) : Nat × Nat).1 else exPr.raw) =
      exPr.raw.consume 46 >>= fun p' => gapLoop true 46 2 1 p' := by
    rfl
  rw [hg, ex_first]
  rfl

theorem ex_rest : ∃ pr1, exRest exRaw1 = .ok pr1 ∧ pr1.raw.err = true ∧ pr1.pulled = 5 := by
  have h : (match exRest exRaw1 with
      | .ok pr1 => pr1.raw.err && pr1.pulled == 5
      | .error _ => false) = true := by decide
  cases hr : exRest exRaw1 with
  | error p => rw [hr] at h; cases h
  | ok pr1 =>
    rw [hr] at h
    simp only [Bool.and_eq_true, beq_iff_eq] at h
    exact ⟨pr1, rfl, h.1, h.2⟩

end FF

/-- the hypotheses of D are satisfiable: digits `p % 10`, blocks of 4, `Fprint` of the range [2, 9)
into a 4-byte buffer over a writer that fails after 5 bytes. The error is latched by the flush that
the digit at position 6 forces; 5 digits were pulled and the demand is 8 = `blockUp c 6` (running
the range to its end demands 12). -/
example : ∃ m' pr', rangeFault3 FF.exC FF.exM FF.exPr FF.exV FF.exR = some (.ok (m', pr')) ∧
    FF.exPr.raw.err = false ∧ pr'.raw.err = true ∧ pr'.pulled = 5 ∧ m'.maxLength = 8 := by
  obtain ⟨pr1, hfeed, herr, hpulled⟩ := FF.ex_rest
  rw [← FF.ex_feed] at hfeed
  have hv1 : FF.exV.apply (.withStart FF.exR.start) = some (.ok (.mws .memo 2)) := by rfl
  have hv2 : (Val3.mws .memo 2).apply (.withEnd FF.exR.stop) = some (.ok (.mws (.limited 9) 2)) := by rfl
  have hfw : (Val3.mws (.limited 9) 2).forward FF.exC FF.exM ((FF.exR.stop - FF.exR.start).toNat + 1) =
      .ok ({ FF.exM with maxLength := 12 }, FF.exXs) := by rfl
  have hfj : (Val3.mws (.limited 9) 2).forward FF.exC FF.exM (pr1.pulled - FF.exPr.pulled) =
      .ok ({ FF.exM with maxLength := 8 }, FF.exXs.take 5) := by rw [hpulled]; rfl
  refine ⟨{ FF.exM with maxLength := 8 }, pr1, ?_, rfl, herr, hpulled, rfl⟩
  unfold rangeFault3
  simp only [hv1, hv2]
  rw [if_neg (by decide)]
  simp only [hfw, hfeed]
  rw [if_neg (by simp [RawPrinter.canConsume, herr])]
  simp only [hfj]

end Sqroot.Proofs

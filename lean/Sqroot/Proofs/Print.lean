/-
Lemmas for C10 (printed tables place every digit at its true position) and C12 (printing to a
failing writer: exact counts, clean prefix, prompt stop, termination).
-/
import Sqroot.Model.Printer
import Sqroot.Spec.Print
import Sqroot.Proofs.PrintSim
import Sqroot.Proofs.PrintLayout
namespace Sqroot.Proofs
open Sqroot.Model

def StrictAsc (shown : List (Nat × Nat)) : Prop := shown.Pairwise fun a b => a.1 < b.1

/-- the printer's options as the specification sees them -/
def toPOpts (v : Version) (s : PSettings) (maxDigits : Int) : Spec.POpts :=
  let r := computeRowStarter v s maxDigits
  ⟨s.digitsPerRow, s.digitsPerColumn, r.zeroString, r.countOn, r.width, r.nonZeroString, s.missingDigit, s.trailingLineFeed⟩

/-- the underlying writer always takes everything and never fails -/
def Reliable (w : Nat → List Nat → Nat × Bool × Nat) : Prop :=
  ∀ st p, (w st p).1 = p.length ∧ (w st p).2.1 = false

/-- io.Writer's contract as far as C12 needs it: an error is reported only together with a short
count … -/
def Honest (w : Nat → List Nat → Nat × Bool × Nat) : Prop :=
  ∀ st p, (w st p).2.1 = true → (w st p).1 < p.length

/-- … and a write of a non-empty slice that makes no progress reports an error (otherwise
`bufio.Writer.Write` itself spins on its direct path) -/
def NoStall (w : Nat → List Nat → Nat × Bool × Nat) : Prop :=
  ∀ st p, p ≠ [] → (w st p).1 = 0 → (w st p).2.1 = true

/-- the row starters computed from the regenerated `digitCountWidth` are the documented ones
(v1/v2 behave as leadingDecimal = true) -/
theorem rowStarter_resolve (v : Version) (s : PSettings) (maxDigits : Int) :
    toPOpts v s maxDigits =
      Spec.resolve s.digitsPerRow s.digitsPerColumn s.showCount s.missingDigit s.trailingLineFeed
        (match v with | .v3 => s.leadingDecimal | _ => true) maxDigits := by
  unfold toPOpts computeRowStarter Spec.resolve
  rw [Prt.width_eq]
  generalize Spec.labelWidth s.digitsPerRow s.showCount maxDigits = w
  dsimp only
  by_cases hw : w = 0
  · have : ((w : Nat) : Int) ≤ 0 := by omega
    rw [if_pos this, if_pos hw]
    cases v <;> dsimp only <;> (repeat' split) <;> rfl
  · have : ¬ ((w : Nat) : Int) ≤ 0 := by omega
    rw [if_neg this, if_neg hw]
    cases v <;> dsimp only <;> (repeat' split) <;> simp

/-- C10 main theorem: on a writer that does not fail, for every option combination (any integers
for rows/columns, any rune), every buffer size, and every strictly ascending set of shown
positions split into any number of feeds, the bytes delivered are exactly the canonical layout,
the count is their number and no error is reported; no panic, no exhausted fuel. -/
theorem print_layout (v : Version) (s : PSettings) (maxDigits : Int) (feeds : List (List (Nat × Nat)))
    (w : Nat → List Nat → Nat × Bool × Nat) (st : Nat) (hw : Reliable w)
    (hasc : StrictAsc feeds.flatten) (hd : ∀ x ∈ feeds.flatten, x.2 ≤ 9) :
    ∃ r, printRun v { w := w, st := st } maxDigits s feeds = .ok r ∧
      r.accepted = Spec.layout (toPOpts v s maxDigits) feeds.flatten ∧
      r.written = r.accepted.length ∧ r.err = false ∧ r.pulled = feeds.flatten.length := by
  have hsp := Prt.run_spec (Hn := False) (Rl := True) (w := w) (N := True) (fun h => h.elim)
    (fun _ => hw) (fun _ => Prt.ReliableW.noStall hw) v (fun _ => Prt.gapChecksErrOf_true v) st maxDigits s feeds
  obtain ⟨r, hr⟩ := hsp.1 trivial
  obtain ⟨b, hb, hacc, hwr, herr, hbuf, hpul⟩ := hsp.2 r hr
  have he : b.err = false := hb.rel trivial
  refine ⟨r, hr, ?_, hwr, herr.trans he, hpul he⟩
  have := hb.eq he
  rw [hbuf he, List.append_nil] at this
  rw [hacc, this]
  exact Prt.emit_layout _ _ hasc hd

/-- C12 clean prefix + exact count: whatever the underlying writer does, if the call returns,
the bytes it accepted are a prefix of the fault-free output and the count returned is their number -/
theorem fault_prefix (v : Version) (s : PSettings) (maxDigits : Int) (feeds : List (List (Nat × Nat)))
    (w : Nat → List Nat → Nat × Bool × Nat) (st : Nat)
    (hasc : StrictAsc feeds.flatten) (hd : ∀ x ∈ feeds.flatten, x.2 ≤ 9)
    (r : PrintResult) (hr : printRun v { w := w, st := st } maxDigits s feeds = .ok r) :
    r.accepted <+: Spec.layout (toPOpts v s maxDigits) feeds.flatten ∧ r.written = r.accepted.length := by
  have hsp := Prt.run_spec (Hn := False) (Rl := False) (w := w) (N := False) (fun h => h.elim)
    (fun h => h.elim) (fun h => h.elim) v (fun h => h.elim) st maxDigits s feeds
  obtain ⟨b, hb, hacc, hwr, -, -, -⟩ := hsp.2 r hr
  refine ⟨?_, hwr⟩
  rw [hacc]
  have := (List.prefix_append b.sink.accepted b.buf).trans hb.pre
  rw [Prt.emit_layout _ _ hasc hd] at this
  exact this

/-- C12 error iff incomplete (for writers honouring io.Writer's contract) -/
theorem fault_err_iff (v : Version) (s : PSettings) (maxDigits : Int) (feeds : List (List (Nat × Nat)))
    (w : Nat → List Nat → Nat × Bool × Nat) (st : Nat) (hh : Honest w)
    (hasc : StrictAsc feeds.flatten) (hd : ∀ x ∈ feeds.flatten, x.2 ≤ 9)
    (r : PrintResult) (hr : printRun v { w := w, st := st } maxDigits s feeds = .ok r) :
    (r.err = false ↔ r.accepted = Spec.layout (toPOpts v s maxDigits) feeds.flatten) := by
  have hsp := Prt.run_spec (Hn := True) (Rl := False) (w := w) (N := False) (fun _ => hh)
    (fun h => h.elim) (fun h => h.elim) v (fun h => h.elim) st maxDigits s feeds
  obtain ⟨b, hb, hacc, -, herr, hbuf, -⟩ := hsp.2 r hr
  rw [Prt.emit_layout _ _ hasc hd] at hb
  constructor
  · intro e
    have he : b.err = false := herr ▸ e
    have := hb.eq he
    rw [hbuf he, List.append_nil] at this
    rw [hacc, this]; rfl
  · intro e
    cases he : b.err
    · exact herr.trans he
    · exfalso
      have h1 := hb.strict trivial he
      rw [← hacc, e] at h1
      exact Nat.lt_irrefl _ h1

/-- C12 termination (the obligation the unrepaired code failed, DESIGN §9.1): with the gap loop
re-checking the error state — a fact regenerated from the source — Fprint/Fwrite return for
every writer that does not stall: no `outOfFuel`, no panic. -/
theorem fault_terminates (v : Version) (s : PSettings) (maxDigits : Int) (feeds : List (List (Nat × Nat)))
    (w : Nat → List Nat → Nat × Bool × Nat) (st : Nat) (hn : NoStall w)
    (hgap : gapChecksErrOf v = true) :
    ∃ r, printRun v { w := w, st := st } maxDigits s feeds = .ok r := by
  have hsp := Prt.run_spec (Hn := False) (Rl := False) (w := w) (N := True) (fun h => h.elim)
    (fun h => h.elim) (fun _ => hn) v (fun _ => hgap) st maxDigits s feeds
  exact hsp.1 trivial

/-- the regenerated fact itself, for the three versions -/
theorem gap_loop_checks_err (v : Version) : gapChecksErrOf v = true := by
  cases v <;> rfl

/-- C12 prompt stop: an error latched by the buffered writer is seen by the printer within the
same `Consume` … -/
theorem fault_prompt_latch (p p' : RawPrinter) (d : Int) (h : p.consume d = .ok p')
    (hp : p.w.err = true → p.err = true) : p'.w.err = true → p'.err = true := by
  exact Prt.consume_latch p p' d h hp

/-- … and once the printer has seen it no further digit is pulled from the sequence -/
theorem fault_prompt_stop (pr pr' : Printer) (feed : List (Nat × Nat)) (h : pr.feed feed = .ok pr')
    (herr : pr.raw.err = true) : pr'.pulled = pr.pulled := by
  cases feed with
  | nil => cases h; rfl
  | cons x rest =>
    rw [Prt.feed_cons, if_pos (by simp [RawPrinter.canConsume, herr])] at h
    cases h; rfl

/-- the buffered writer never reorders or invents bytes: what the sink accepted plus what is still
buffered is a prefix of what was handed in, and equal to it while no error is latched -/
theorem bufw_write_spec (b b' : BufW) (p : List Nat) (n : Nat) (h : b.write p = .ok (b', n)) :
    (b'.sink.accepted ++ b'.buf) <+: (b.sink.accepted ++ b.buf ++ p) ∧
    (b'.err = false → b'.sink.accepted ++ b'.buf = b.sink.accepted ++ b.buf ++ p) ∧
    (b.err = true → b' = b ∨ (b'.sink.accepted = b.sink.accepted ∧ b'.err = true)) := by
  have h0 : Prt.BInv False False b.sink.w b (b.sink.accepted ++ b.buf) :=
    ⟨rfl, List.prefix_refl _, (fun _ => rfl), (fun hf => hf.elim), (fun hf => hf.elim)⟩
  have hsp := Prt.write_spec (Hn := False) (Rl := False) (w := b.sink.w) (N := False)
    (fun hf => hf.elim) (fun hf => hf.elim) (fun hf => hf.elim) p h0
  obtain ⟨h1, -, h3⟩ := hsp.2 (b', n) h
  exact ⟨h1.pre, h1.eq, fun e => Or.inl (h3 e)⟩

end Sqroot.Proofs

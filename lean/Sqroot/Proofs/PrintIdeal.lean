/-
The error-free ("ideal") printer: the pure stream of bytes the printer hands to the buffered
writer when no error ever occurs. Definitions only; `PrintLayout` proves it equal to the layout
specification, `PrintSim` proves that the real printer over `BufW` simulates it.
-/
import Sqroot.Model.Printer
import Sqroot.Spec.Print
namespace Sqroot.Proofs.Prt
open Sqroot.Model

/-- static configuration of a printer -/
structure Cfg where
  starter : RowStarter
  dpr : Int
  dpc : Int
  tlf : Bool
  missing : Int

/-- ideal printer state: everything emitted so far, `index`, `indexInRow` -/
structure IP where
  out : List Nat
  index : Int
  inRow : Int

def startBytes (r : RowStarter) (index : Int) : List Nat :=
  if index = 0 then utf8 r.zeroString
  else if r.countOn then utf8 (padLeft r.width (toString index) ++ "  ")
  else utf8 r.nonZeroString

/-- bytes before the rune, and the `indexInRow` after the three-way prefix -/
def ipre (c : Cfg) (s : IP) : List Nat × Int :=
  if s.index = 0 then (startBytes c.starter 0, s.inRow)
  else if c.dpr > 0 ∧ Int.tmod s.index c.dpr = 0 then
    ((if s.out.length > 0 then [10] else []) ++ startBytes c.starter s.index, 0)
  else if c.dpc > 0 ∧ Int.tmod s.inRow c.dpc = 0 then ([32], s.inRow)
  else ([], s.inRow)

def iconsume (c : Cfg) (s : IP) (digit : Int) : IP :=
  ⟨s.out ++ ((ipre c s).1 ++ encodeRune digit), s.index + 1, (ipre c s).2 + 1⟩

def iskip (c : Cfg) (s : IP) (nextPosit : Int) : IP :=
  let currentRow := Int.tdiv s.index c.dpr
  let nextRow := Int.tdiv nextPosit c.dpr
  if Int.tmod s.index c.dpr = 0 then
    { s with index := s.index + (nextRow - currentRow) * c.dpr }
  else if nextRow > currentRow then
    { s with index := s.index + (nextRow - currentRow - 1) * c.dpr }
  else s

def igap (c : Cfg) (posit : Int) : Nat → IP → IP
  | 0, s => s
  | n + 1, s => if s.index < posit then igap c posit n (iconsume c s c.missing) else s

def ipconsume (c : Cfg) (s : IP) (x : Nat × Nat) : IP :=
  let s1 :=
    if s.index < (x.1 : Int) then
      let s0 := if c.dpr > 0 ∧ c.starter.countOn then iskip c s x.1 else s
      igap c x.1 ((x.1 : Int) - s0.index).toNat s0
    else s
  iconsume c s1 (48 + (x.2 : Int))

def ifeed (c : Cfg) (s : IP) (xs : List (Nat × Nat)) : IP := xs.foldl (ipconsume c) s

def ifinish (c : Cfg) (s : IP) : List Nat := s.out ++ (if c.tlf then [10] else [])

def IP.init : IP := ⟨[], 0, 0⟩

/-- everything the error-free printer emits for `shown` -/
def emit (c : Cfg) (shown : List (Nat × Nat)) : List Nat := ifinish c (ifeed c IP.init shown)

def Cfg.toPOpts (c : Cfg) : Spec.POpts :=
  ⟨c.dpr, c.dpc, c.starter.zeroString, c.starter.countOn, c.starter.width, c.starter.nonZeroString,
    c.missing, c.tlf⟩

def cfgOf (v : Version) (s : PSettings) (maxDigits : Int) : Cfg :=
  ⟨computeRowStarter v s maxDigits, s.digitsPerRow, s.digitsPerColumn, s.trailingLineFeed, s.missingDigit⟩

end Sqroot.Proofs.Prt

/-
Arithmetic lemmas behind C01–C03/C13: normalisation, the digit loop, one step of the root closure.
-/
import Sqroot.Proofs.RootDefs
import Sqroot.Proofs.Iter
import Mathlib.Tactic.Ring
import Mathlib.Tactic.Linarith
import Mathlib.Tactic.NormNum
import Mathlib.Tactic.Push
namespace Sqroot.Proofs
open Sqroot.Model

/-! ### normalisation -/

theorem scaleUp_spec (B num den : Nat) (e : Int) (hB : 1 < B) (hnum : 0 < num) :
    ∃ k : Nat, scaleUp B num den e = (num * B ^ k, e - k) ∧ den ≤ num * B ^ k ∧
      (k = 0 ∨ num * B ^ k < den * B) := by
  fun_induction scaleUp B num den e with
  | case1 num e h ih =>
    obtain ⟨h1, h2, h3⟩ := h
    obtain ⟨k, hk1, hk2, hk3⟩ := ih (Nat.mul_pos h2 (by omega))
    refine ⟨k + 1, ?_, ?_, ?_⟩
    · rw [hk1]
      refine Prod.ext ?_ ?_
      · simp only [pow_succ]; ring
      · simp only []; push_cast; ring
    · calc den ≤ num * B * B ^ k := hk2
        _ = num * B ^ (k + 1) := by rw [pow_succ]; ring
    · right
      have e1 : num * B ^ (k + 1) = num * B * B ^ k := by rw [pow_succ]; ring
      rw [e1]
      rcases hk3 with rfl | hk3
      · simp only [pow_zero, Nat.mul_one]
        exact Nat.mul_lt_mul_of_pos_right h1 (by omega)
      · exact hk3
  | case2 num e h =>
    refine ⟨0, by simp, ?_, Or.inl rfl⟩
    simp only [pow_zero, Nat.mul_one]
    by_contra hc
    exact h ⟨by omega, hnum, hB⟩

theorem scaleDown_spec (B num den : Nat) (e : Int) (hB : 1 < B) (hden : 0 < den) :
    ∃ m : Nat, scaleDown B num den e = (den * B ^ m, e + m) ∧ num < den * B ^ m ∧
      (m = 0 ∨ den * B ^ m ≤ num * B) := by
  fun_induction scaleDown B num den e with
  | case1 den e h ih =>
    obtain ⟨h1, h2, h3⟩ := h
    obtain ⟨m, hm1, hm2, hm3⟩ := ih (Nat.mul_pos h2 (by omega))
    have e1 : den * B ^ (m + 1) = den * B * B ^ m := by rw [pow_succ]; ring
    refine ⟨m + 1, ?_, ?_, ?_⟩
    · rw [hm1, e1]
      refine Prod.ext rfl ?_
      simp only []; push_cast; ring
    · rw [e1]; exact hm2
    · right
      rw [e1]
      rcases hm3 with rfl | hm3
      · simp only [pow_zero, Nat.mul_one]
        exact Nat.mul_le_mul_right B h1
      · exact hm3
  | case2 den e h =>
    refine ⟨0, by simp, ?_, Or.inl rfl⟩
    simp only [pow_zero, Nat.mul_one]
    by_contra hc
    exact h ⟨by omega, hden, hB⟩

theorem scaleDown_of_lt (B num den : Nat) (e : Int) (h : num < den) :
    scaleDown B num den e = (den, e) := by
  rw [scaleDown]
  have : ¬ (den ≤ num ∧ 0 < den ∧ 1 < B) := fun hh => by omega
  simp [this]

/-- the two shapes a normalised radicand can have -/
theorem normalize_cases (num den B : Nat) (hB : 1 < B) (hnum : 0 < num) (hden : 0 < den) :
    (∃ k : Nat, num * B ^ k < den ∧ den ≤ num * B ^ k * B ∧
        normalize num den B = ⟨num * B ^ k, den, -(k : Int)⟩) ∨
    (∃ m : Nat, den * B ^ (m + 1) ≤ num * B ∧ num < den * B ^ (m + 1) ∧
        normalize num den B = ⟨num, den * B ^ (m + 1), ((m + 1 : Nat) : Int)⟩) := by
  obtain ⟨k, hk1, hk2, hk3⟩ := scaleUp_spec B num den 0 hB hnum
  have hB0 : 0 < B := by omega
  cases k with
  | zero =>
    right
    simp only [pow_zero, Nat.mul_one, Nat.cast_zero, sub_zero] at hk1 hk2
    obtain ⟨m, hm1, hm2, hm3⟩ := scaleDown_spec B num den 0 hB hden
    cases m with
    | zero => simp only [pow_zero, Nat.mul_one] at hm2; omega
    | succ m =>
      refine ⟨m, ?_, hm2, ?_⟩
      · rcases hm3 with h | h
        · omega
        · exact h
      · simp only [normalize, hk1]
        simp only [lt_self_iff_false, if_false, hm1]
        simp
  | succ k =>
    left
    have e1 : num * B ^ (k + 1) = num * B ^ k * B := by rw [pow_succ]; ring
    rw [e1] at hk1 hk2 hk3
    have hlt : num * B ^ k < den := by
      rcases hk3 with h | h
      · omega
      · exact Nat.lt_of_mul_lt_mul_right h
    refine ⟨k, hlt, hk2, ?_⟩
    simp only [normalize, hk1]
    have hneg : (0 : Int) - ((k + 1 : Nat) : Int) < 0 := by omega
    simp only [hneg, if_true, Nat.mul_div_cancel _ hB0]
    rw [scaleDown_of_lt _ _ _ _ hlt]
    simp only [Norm.mk.injEq, true_and]
    omega

theorem normalize_spec (num den B : Nat) (hB : 1 < B) (hnum : 0 < num) (hden : 0 < den) :
    0 < (normalize num den B).num ∧ (normalize num den B).num < (normalize num den B).den ∧
    (normalize num den B).den ≤ (normalize num den B).num * B ∧
    num * (normalize num den B).den * B ^ (-(normalize num den B).exp).toNat =
      (normalize num den B).num * den * B ^ (normalize num den B).exp.toNat := by
  have hB0 : 0 < B := by omega
  rcases normalize_cases num den B hB hnum hden with ⟨k, h1, h2, h3⟩ | ⟨m, h1, h2, h3⟩
  · rw [h3]
    refine ⟨Nat.mul_pos hnum (Nat.pow_pos hB0), h1, h2, ?_⟩
    simp only [neg_neg, Int.toNat_natCast]
    have : (-(k : Int)).toNat = 0 := by omega
    rw [this]
    ring
  · rw [h3]
    refine ⟨hnum, h2, h1, ?_⟩
    have : (-((m + 1 : Nat) : Int)).toNat = 0 := by omega
    rw [this, Int.toNat_natCast]
    ring

theorem scaleUp_scale (B num den c : Nat) (e : Int) (hc : 0 < c) :
    scaleUp B (c * num) (c * den) e = (c * (scaleUp B num den e).1, (scaleUp B num den e).2) := by
  fun_induction scaleUp B num den e with
  | case1 num e h ih =>
    obtain ⟨h1, h2, h3⟩ := h
    have : c * num < c * den ∧ 0 < c * num ∧ 1 < B :=
      ⟨Nat.mul_lt_mul_of_pos_left h1 hc, Nat.mul_pos hc h2, h3⟩
    rw [scaleUp, dif_pos this, Nat.mul_assoc]
    exact ih
  | case2 num e h =>
    have : ¬ (c * num < c * den ∧ 0 < c * num ∧ 1 < B) := by
      rintro ⟨h1, h2, h3⟩
      exact h ⟨Nat.lt_of_mul_lt_mul_left h1, Nat.pos_of_mul_pos_left h2, h3⟩
    rw [scaleUp, dif_neg this]

theorem scaleDown_scale (B num den c : Nat) (e : Int) (hc : 0 < c) :
    scaleDown B (c * num) (c * den) e =
      (c * (scaleDown B num den e).1, (scaleDown B num den e).2) := by
  fun_induction scaleDown B num den e with
  | case1 den e h ih =>
    obtain ⟨h1, h2, h3⟩ := h
    have : c * den ≤ c * num ∧ 0 < c * den ∧ 1 < B :=
      ⟨Nat.mul_le_mul_left c h1, Nat.mul_pos hc h2, h3⟩
    rw [scaleDown, dif_pos this, Nat.mul_assoc]
    exact ih
  | case2 den e h =>
    have : ¬ (c * den ≤ c * num ∧ 0 < c * den ∧ 1 < B) := by
      rintro ⟨h1, h2, h3⟩
      exact h ⟨Nat.le_of_mul_le_mul_left h1 hc, Nat.pos_of_mul_pos_left h2, h3⟩
    rw [scaleDown, dif_neg this]

theorem normalize_scale (num den B c : Nat) (hB : 1 < B) (hnum : 0 < num) (hc : 0 < c) :
    normalize (c * num) (c * den) B =
      ⟨c * (normalize num den B).num, c * (normalize num den B).den, (normalize num den B).exp⟩ := by
  have hB0 : 0 < B := by omega
  obtain ⟨k, hk1, -, -⟩ := scaleUp_spec B num den 0 hB hnum
  simp only [normalize, scaleUp_scale _ _ _ _ _ hc, hk1]
  by_cases hneg : (0 : Int) - (k : Int) < 0
  · obtain ⟨k, rfl⟩ : ∃ k', k = k' + 1 := ⟨k - 1, by omega⟩
    have e1 : num * B ^ (k + 1) = num * B ^ k * B := by rw [pow_succ]; ring
    have e2 : c * (num * B ^ k * B) / B = c * (num * B ^ k) := by
      rw [← Nat.mul_assoc, Nat.mul_div_cancel _ hB0]
    simp only [hneg, if_true, e1, e2, Nat.mul_div_cancel _ hB0, scaleDown_scale _ _ _ _ _ hc]
  · simp only [hneg, if_false, scaleDown_scale _ _ _ _ _ hc]

/-! ### the digit loop -/

theorem digitLoop_spec {n : Nat} (hn : 0 < n) (mgr : Manager) (aux : Int → Int)
    (hnext : ∀ Q : Int, 0 ≤ Q → mgr.next (pw n Q) (aux Q) = (pw n (Q + 1), aux (Q + 1)))
    (G : Nat) : ∀ (m Q d : Nat), Q ^ n ≤ G → G - Q ^ n < m →
      ∃ Q' : Nat, Q ≤ Q' ∧ Q' ^ n ≤ G ∧ G < (Q' + 1) ^ n ∧
        digitLoop mgr ((G : Int) - (Q : Int) ^ n) (pw n Q) (aux Q) d =
          ((G : Int) - (Q' : Int) ^ n, pw n Q', aux Q', d + (Q' - Q)) := by
  intro m
  induction m with
  | zero => intro Q d _ h; omega
  | succ m ih =>
    intro Q d hQ hm
    have hlt : Q ^ n < (Q + 1) ^ n := Nat.pow_lt_pow_left (by omega) (by omega)
    have hltI : (Q : Int) ^ n < ((Q : Int) + 1) ^ n := by exact_mod_cast hlt
    by_cases hc : (Q + 1) ^ n ≤ G
    · obtain ⟨Q', h1, h2, h3, h4⟩ := ih (Q + 1) (d + 1) hc (by omega)
      refine ⟨Q', by omega, h2, h3, ?_⟩
      have hcI : ((Q : Int) + 1) ^ n ≤ (G : Int) := by exact_mod_cast hc
      have hcond : pw n (Q : Int) ≤ (G : Int) - (Q : Int) ^ n ∧ 0 < pw n (Q : Int) := by
        unfold pw; constructor <;> linarith
      have e1 : (G : Int) - (Q : Int) ^ n - pw n Q = (G : Int) - ((Q + 1 : Nat) : Int) ^ n := by
        unfold pw; push_cast; ring
      have e2 : ((Q + 1 : Nat) : Int) = (Q : Int) + 1 := by push_cast; rfl
      rw [digitLoop, dif_pos hcond, hnext Q (by omega), e1]
      rw [e2] at h4
      simp only []
      rw [e2, h4]
      have : d + 1 + (Q' - (Q + 1)) = d + (Q' - Q) := by omega
      rw [this]
    · refine ⟨Q, Nat.le_refl _, hQ, by omega, ?_⟩
      have hcond : ¬ (pw n (Q : Int) ≤ (G : Int) - (Q : Int) ^ n ∧ 0 < pw n (Q : Int)) := by
        rintro ⟨h1, -⟩
        apply hc
        have : ((Q : Int) + 1) ^ n ≤ (G : Int) := by unfold pw at h1; linarith
        exact_mod_cast this
      rw [digitLoop, dif_neg hcond]
      simp

/-! ### one call of the root closure -/

/-- the result of `rootStep` given the outcome `r` of the digit loop -/
def stepOut (mgr : Manager) (num' : Nat) (r : Int × Int × Int × Nat) : Nat × RootSt :=
  (r.2.2.2, ⟨num', r.1, (mgr.nextDigit r.2.1 r.2.2.1).1, (mgr.nextDigit r.2.1 r.2.2.1).2⟩)

theorem rootStep_eq (mgr : Manager) (den : Nat) (s : RootSt) :
    rootStep mgr den s =
      if s.num = 0 ∧ s.rem = 0 then none
      else some (stepOut mgr (s.num * mgr.base % den)
        (digitLoop mgr (s.rem * mgr.base + ((s.num * mgr.base / den : Nat) : Int)) s.incr s.incr2 0)) := by
  unfold rootStep groupStep stepOut
  by_cases h : s.num = 0
  · by_cases h2 : s.rem = 0
    · simp [h, h2]
    · simp [h, h2]
  · simp [h]

theorem rootStep_none_iff (mgr : Manager) (den : Nat) (s : RootSt) :
    rootStep mgr den s = none ↔ s.num = 0 ∧ s.rem = 0 := by
  rw [rootStep_eq]
  by_cases h : s.num = 0 ∧ s.rem = 0
  · simp [h]
  · simp [h]

/-- Invariant of the closure state after `j` calls: `P` is the root prefix, `G` the radicand prefix. -/
structure RootInv (n : Nat) (aux : Int → Int) (den X j P G : Nat) (s : RootSt) : Prop where
  grp : X * (10 ^ n) ^ j = G * den + s.num
  lt : s.num < den
  rem : s.rem = (G : Int) - (P : Int) ^ n
  lo : P ^ n ≤ G
  hi : G < (P + 1) ^ n
  incr : s.incr = pw n (10 * (P : Int))
  incr2 : s.incr2 = aux (10 * (P : Int))

theorem rootStep_inv {n : Nat} {mgr : Manager} (hn : 0 < n) (hB : mgr.base = 10 ^ n)
    (aux : Int → Int)
    (hnext : ∀ Q : Int, 0 ≤ Q → mgr.next (pw n Q) (aux Q) = (pw n (Q + 1), aux (Q + 1)))
    (hnd : ∀ Q : Int, 0 ≤ Q → mgr.nextDigit (pw n Q) (aux Q) = (pw n (10 * Q), aux (10 * Q)))
    {den X j P G : Nat} {s s' : RootSt} {d : Nat}
    (hI : RootInv n aux den X j P G s) (h : rootStep mgr den s = some (d, s')) :
    d ≤ 9 ∧ RootInv n aux den X (j + 1) (10 * P + d) (G * 10 ^ n + s.num * 10 ^ n / den) s' ∧
      s'.num = s.num * 10 ^ n % den := by
  rw [rootStep_eq, hB] at h
  split at h
  · cases h
  rename_i hne
  have hB0 : 0 < 10 ^ n := Nat.pow_pos (by omega)
  have hden : 0 < den := by have := hI.lt; omega
  generalize hBdef : 10 ^ n = B at *
  generalize hg : s.num * B / den = g at *
  have hgB : g < B := by
    rw [← hg]
    apply Nat.div_lt_of_lt_mul
    exact Nat.mul_lt_mul_of_pos_right hI.lt hB0
  have hmp : (10 * P) ^ n = P ^ n * B := by rw [Nat.mul_pow, hBdef]; ring
  have hmp2 : (10 * P + 10) ^ n = (P + 1) ^ n * B := by
    have : 10 * P + 10 = 10 * (P + 1) := by ring
    rw [this, Nat.mul_pow, hBdef]; ring
  have hlo : (10 * P) ^ n ≤ G * B + g := by
    have := Nat.mul_le_mul_right B hI.lo
    omega
  have hhi : G * B + g < (10 * P + 10) ^ n := by
    have h1 : (G + 1) * B ≤ (P + 1) ^ n * B := Nat.mul_le_mul_right B hI.hi
    have h2 : (G + 1) * B = G * B + B := by ring
    omega
  obtain ⟨Q', q1, q2, q3, q4⟩ := digitLoop_spec hn mgr aux hnext (G * B + g)
    (G * B + g - (10 * P) ^ n + 1) (10 * P) 0 hlo (by omega)
  have hQ' : Q' < 10 * P + 10 :=
    (Nat.pow_lt_pow_iff_left (by omega : n ≠ 0)).mp (Nat.lt_of_le_of_lt q2 hhi)
  have e1 : s.rem * ((B : Nat) : Int) + (g : Int) =
      ((G * B + g : Nat) : Int) - ((10 * P : Nat) : Int) ^ n := by
    rw [hI.rem]
    have : (((10 * P : Nat) : Int)) ^ n = ((P : Int)) ^ n * (B : Int) := by exact_mod_cast hmp
    rw [this]; push_cast; ring
  have e2 : ((10 * P : Nat) : Int) = 10 * (P : Int) := by push_cast; rfl
  rw [e1, hI.incr, hI.incr2, ← e2, q4] at h
  simp only [stepOut, Option.some.injEq, Prod.mk.injEq] at h
  obtain ⟨hd, hs'⟩ := h
  have hdQ : 10 * P + d = Q' := by omega
  refine ⟨by omega, ?_, by rw [← hs']⟩
  rw [hdQ, ← hs', hnd Q' (by omega)]
  refine ⟨?_, Nat.mod_lt _ hden, rfl, q2, q3, rfl, rfl⟩
  rw [hBdef]
  show X * B ^ (j + 1) = (G * B + g) * den + s.num * B % den
  have h1 := hI.grp
  rw [hBdef] at h1
  have h2 := Nat.div_add_mod (s.num * B) den
  rw [hg] at h2
  calc X * B ^ (j + 1) = (X * B ^ j) * B := by rw [pow_succ]; ring
    _ = (G * den + s.num) * B := by rw [h1]
    _ = G * B * den + s.num * B := by ring
    _ = G * B * den + (den * g + s.num * B % den) := by rw [h2]
    _ = (G * B + g) * den + s.num * B % den := by ring

/-! ### transporting inequalities through the normalisation -/

theorem transport (B num den X den' p q a b L : Nat) (hB : 0 < B) (hden : 0 < den)
    (hden' : 0 < den') (hrel : num * den' * B ^ p = X * den * B ^ q) (hexp : a + L + p = q + b)
    (Y : Nat) :
    (Y * B ^ a * den ≤ num * B ^ b ↔ Y * den' ≤ X * B ^ L) ∧
    (num * B ^ b < Y * B ^ a * den ↔ X * B ^ L < Y * den') ∧
    (Y * B ^ a * den = num * B ^ b ↔ Y * den' = X * B ^ L) := by
  have hK1 : 0 < den' * B ^ p := Nat.mul_pos hden' (Nat.pow_pos hB)
  have hK2 : 0 < den * B ^ a * B ^ p := Nat.mul_pos (Nat.mul_pos hden (Nat.pow_pos hB)) (Nat.pow_pos hB)
  have e1 : (Y * B ^ a * den) * (den' * B ^ p) = (Y * den') * (den * B ^ a * B ^ p) := by ring
  have e2 : (num * B ^ b) * (den' * B ^ p) = (X * B ^ L) * (den * B ^ a * B ^ p) := by
    calc (num * B ^ b) * (den' * B ^ p) = (num * den' * B ^ p) * B ^ b := by ring
      _ = X * den * B ^ q * B ^ b := by rw [hrel]
      _ = X * den * B ^ (q + b) := by rw [pow_add]; ring
      _ = X * den * B ^ (a + L + p) := by rw [hexp]
      _ = (X * B ^ L) * (den * B ^ a * B ^ p) := by rw [pow_add, pow_add]; ring
  refine ⟨?_, ?_, ?_⟩
  · rw [← Nat.mul_le_mul_right_iff hK1, e1, e2, Nat.mul_le_mul_right_iff hK2]
  · rw [← Nat.mul_lt_mul_right hK1, e1, e2, Nat.mul_lt_mul_right hK2]
  · rw [← Nat.mul_right_cancel_iff hK1, e1, e2, Nat.mul_right_cancel_iff hK2]

end Sqroot.Proofs

/-
Linking L1 (the concurrent monitor) to L2 (the sequential memoizer contract used by C04/C06/C15):
for ONE client thread issuing `wait` calls one after the other, under EVERY interleaving with the
producer, once nothing is enabled any more
  * each call has returned `ok` exactly when its index is a position of the valid digit prefix,
  * the number of source consultations is exactly what the sequential model `Memo` predicts,
    `min(demand, |D| + 1)`, and the published length is `min(demand, |D|)`,
although the demand counter itself may depend on the schedule (a call may see `done = false`
while the producer is still on its way to the end marker).
-/
import Sqroot.Proofs.Monitor
import Sqroot.Model.Memo
namespace Sqroot.Proofs
open Sqroot.Model

/-- the source of a monitor configuration as the sequential model sees it: the valid prefix has
length `L` (first position whose value fails the end test), or is infinite -/
def SrcOf (c : MonCfg) (src : Src) : Prop :=
  (∀ L, src.len = some L → IsEndPos c L) ∧
  (src.len = none → ∀ k, c.endTest (c.src k) = false)

/-- run the sequential model over a list of requested indices -/
def memoRun (mc : MemoCfg) (src : Src) (idxs : List Nat) : Memo :=
  idxs.foldl (fun m i => (m.wait mc i).1) { src := src }

/-! ## Helpers: the single-reader invariant linking the monitor to the sequential model -/
namespace MM
open Mon

/-- index of the call in progress, if any -/
def cur : ReaderPc → List Nat
  | .idle => []
  | .parked i => [i]
  | .woken i => [i]

/-- indices of the calls entered so far by a reader, in program order -/
def ent (r : Reader) : List Nat := r.results.reverse.map (·.1) ++ cur r.pc

theorem ent_bc (r : Reader) : ent (bc r) = ent r := by
  unfold ent
  rw [bc_results, bc_pc]
  cases hpc : r.pc <;> simp [cur]

theorem ent_waitTail (len : Nat) (done : Bool) (index : Nat) (r : Reader) :
    ent (waitTail len done index r) = r.results.reverse.map (·.1) ++ [index] := by
  rcases waitTail_cases len done index r with ⟨_, h⟩ | ⟨_, h⟩ <;> rw [h] <;> simp [ent, cur]

theorem todo_waitTail (len : Nat) (done : Bool) (index : Nat) (r : Reader) :
    (waitTail len done index r).todo = r.todo := by
  rcases waitTail_cases len done index r with ⟨_, h⟩ | ⟨_, h⟩ <;> rw [h]

theorem memoRun_snoc (mc : MemoCfg) (src : Src) (l : List Nat) (i : Nat) :
    memoRun mc src (l ++ [i]) = ((memoRun mc src l).wait mc i).1 := by
  simp [memoRun, List.foldl_append]

theorem wait_src (mc : MemoCfg) (m : Memo) (i : Nat) : (m.wait mc i).1.src = m.src := by
  simp only [Memo.wait]
  split <;> rfl

theorem foldl_src (mc : MemoCfg) (l : List Nat) : ∀ m : Memo,
    (l.foldl (fun m i => (m.wait mc i).1) m).src = m.src := by
  induction l with
  | nil => intro m; rfl
  | cons x xs ih => intro m; rw [List.foldl_cons, ih, wait_src]

theorem memoRun_src (mc : MemoCfg) (src : Src) (l : List Nat) : (memoRun mc src l).src = src :=
  foldl_src mc l _

theorem wait_max (mc : MemoCfg) (m : Memo) (i : Nat) :
    (m.wait mc i).1.maxLength =
      if (!m.done && decide (m.maxLength ≤ i)) = true then mc.chunk * min (i / mc.chunk + 1) mc.maxChunks
      else m.maxLength := by
  simp only [Memo.wait]
  split <;> rfl

/-- the demands of the monitor and of the sequential model agree up to the end marker -/
def Agree (src : Src) (a b : Nat) : Prop :=
  match src.len with
  | some L => min a (L + 1) = min b (L + 1)
  | none => a = b

/-- a good prefix does not go beyond the end marker -/
theorem good_le (c : MonCfg) (src : Src) (hsrc : SrcOf c src) (n L : Nat) (hL : src.len = some L)
    (hg : Good c n) : n ≤ L := by
  rcases Nat.lt_or_ge L n with h | h
  · have h1 := hg L h
    rw [(hsrc.1 L hL).1] at h1
    cases h1
  · exact h

/-- the two ways the producer can have exited -/
theorem exited_cases (c : MonCfg) (src : Src) (hsrc : SrcOf c src) (s : MonSt) (hi : Inv1 c s)
    (hp : s.prod = .exited) :
    (∃ L, src.len = some L ∧ s.len = L ∧ s.consulted = L + 1) ∨
    (s.len = cap c ∧ s.consulted = cap c ∧ s.maxLength = cap c) := by
  have h := hi.hprod
  rw [hp] at h
  simp only [PInv] at h
  obtain ⟨_, hg, h3⟩ := h
  have hcons := hi.hcons
  have hM := hi.hM
  rcases h3 with ⟨h4, h5⟩ | ⟨h4, h5⟩
  · left
    cases hl : src.len with
    | none => have := hsrc.2 hl s.len; rw [h4] at this; cases this
    | some L =>
      refine ⟨L, rfl, ?_, ?_⟩
      · have h6 := good_le c src hsrc s.len L hl hg
        rcases Nat.lt_or_ge s.len L with h7 | h7
        · have := (hsrc.1 L hl).2 s.len h7
          rw [h4] at this; cases this
        · omega
      · have h6 := good_le c src hsrc s.len L hl hg
        rcases Nat.lt_or_ge s.len L with h7 | h7
        · have := (hsrc.1 L hl).2 s.len h7
          rw [h4] at this; cases this
        · omega
  · right
    omega

/-- one `wait(index)` entry keeps the demands in agreement -/
theorem agree_step (c : MonCfg) (hc : 0 < c.chunk) (src : Src) (hsrc : SrcOf c src) (s : MonSt)
    (hi : Inv1 c s) (M : Memo) (hM : M.src = src) (i : Nat) (hic : i < cap c)
    (ha : Agree src s.maxLength M.maxLength) :
    Agree src (if (!s.done && decide (s.maxLength ≤ i)) = true then grownMax c i else s.maxLength)
      (M.wait ⟨c.chunk, c.maxChunks⟩ i).1.maxLength := by
  rw [wait_max]
  have hg : i < grownMax c i := grownMax_gt c hc i hic
  have hd : s.done = true →
      (∃ L, src.len = some L ∧ s.len = L ∧ s.consulted = L + 1) ∨
      (s.len = cap c ∧ s.consulted = cap c ∧ s.maxLength = cap c) :=
    fun hd => exited_cases c src hsrc s hi (done_exited c s hi hd)
  have hcons := hi.hcons
  show Agree src _ (if (!M.done && decide (M.maxLength ≤ i)) = true then grownMax c i else M.maxLength)
  generalize grownMax c i = g at hg ⊢
  unfold Agree at ha ⊢
  unfold Memo.done
  rw [hM]
  cases hl : src.len with
  | none =>
    simp only [hl] at ha ⊢
    cases hdn : s.done with
    | false => simp [ha]
    | true =>
      rcases hd hdn with ⟨L, h1, _⟩ | ⟨_, _, h3⟩
      · rw [hl] at h1; cases h1
      · have : ¬ (M.maxLength ≤ i) := by omega
        simp [this, ha]
  | some L =>
    simp only [hl] at ha ⊢
    cases hdn : s.done with
    | false =>
      by_cases h1 : s.maxLength ≤ i <;> by_cases h2 : M.maxLength ≤ i <;>
        by_cases h3 : L < M.maxLength <;> simp [h1, h2, h3] <;> omega
    | true =>
      have h4 : L < s.maxLength ∨ s.maxLength = cap c := by
        rcases hd hdn with ⟨L', h1, _, h3⟩ | ⟨_, _, h3⟩
        · rw [hl] at h1; cases h1; omega
        · exact Or.inr h3
      by_cases h2 : M.maxLength ≤ i <;>
        by_cases h3 : L < M.maxLength <;> simp [h2, h3] <;> omega

/-- single-reader invariant: program order of the calls, and agreement of the demands -/
def SInv (c : MonCfg) (src : Src) (idxs : List Nat) (s : MonSt) : Prop :=
  ∃ r, s.readers = [r] ∧ ent r ++ r.todo = idxs ∧
    Agree src s.maxLength (memoRun ⟨c.chunk, c.maxChunks⟩ src (ent r)).maxLength

theorem sinv_init (c : MonCfg) (src : Src) (idxs : List Nat) : SInv c src idxs (monInit [idxs]) := by
  refine ⟨⟨.idle, idxs, []⟩, rfl, by simp [ent, cur], ?_⟩
  simp only [ent, cur, monInit, memoRun, Agree]
  cases src.len <;> rfl

theorem singleton_get {α : Type} (a b : α) (k : Nat) (h : [a][k]? = some b) : k = 0 ∧ b = a := by
  cases k with
  | zero => simp at h; exact ⟨rfl, h.symm⟩
  | succ k => simp at h

theorem sinv_step (c : MonCfg) (hc : 0 < c.chunk) (src : Src) (hsrc : SrcOf c src) (idxs : List Nat)
    (hcap : ∀ i ∈ idxs, i < cap c) (s s' : MonSt) (l : Label) (hi : Inv1 c s)
    (h : SInv c src idxs s) (hs : step c s l = some s') : SInv c src idxs s' := by
  obtain ⟨r, hrs, he, ha⟩ := h
  cases l with
  | rEnter k =>
    obtain ⟨r0, index, rest, hr, hpc, htodo, rfl⟩ := step_rEnter c s s' k hs
    rw [hrs] at hr
    obtain ⟨rfl, rfl⟩ := singleton_get _ _ _ hr
    have hent : ent r0 = r0.results.reverse.map (·.1) := by simp [ent, hpc, cur]
    have hidx : index < cap c := hcap index (by rw [← he, htodo]; simp)
    refine ⟨waitTail s.len s.done index { r0 with todo := rest }, by simp [hrs], ?_, ?_⟩
    · rw [ent_waitTail, todo_waitTail, ← he, hent, htodo]; simp
    · rw [ent_waitTail]
      show Agree src _ (memoRun _ src (r0.results.reverse.map (·.1) ++ [index])).maxLength
      rw [memoRun_snoc, ← hent]
      exact agree_step c hc src hsrc s hi _ (memoRun_src _ _ _) index hidx ha
  | rWake k =>
    obtain ⟨r0, index, hr, hpc, rfl⟩ := step_rWake c s s' k hs
    rw [hrs] at hr
    obtain ⟨rfl, rfl⟩ := singleton_get _ _ _ hr
    have hent : ent r0 = r0.results.reverse.map (·.1) ++ [index] := by simp [ent, hpc, cur]
    refine ⟨waitTail s.len s.done index r0, by simp [hrs], ?_, ?_⟩
    · rw [ent_waitTail, todo_waitTail, ← hent]; exact he
    · rw [ent_waitTail, ← hent]; exact ha
  | pCheck =>
    obtain ⟨_, _, h3, h4, _⟩ := step_pCheck_frame c s s' hs
    exact ⟨r, by rw [h4, hrs], he, by rw [h3]; exact ha⟩
  | pCompute =>
    obtain ⟨_, _, h3, h4, _⟩ := step_pCompute_frame c s s' hs
    exact ⟨r, by rw [h4, hrs], he, by rw [h3]; exact ha⟩
  | pPublish =>
    obtain ⟨loc, fin, next, _, rfl⟩ := step_pPublish c s s' hs
    refine ⟨bc r, by simp [broadcast_eq, hrs], ?_, ?_⟩
    · rw [ent_bc, bc_todo]; exact he
    · rw [ent_bc]; exact ha

theorem sinv_run (c : MonCfg) (hc : 0 < c.chunk) (src : Src) (hsrc : SrcOf c src) (idxs : List Nat)
    (hcap : ∀ i ∈ idxs, i < cap c) (ls : List Label) : ∀ (s s' : MonSt), Inv1 c s →
    SInv c src idxs s → runLabels c s ls = some s' → SInv c src idxs s' := by
  induction ls with
  | nil => intro s s' _ h hr; simp only [runLabels] at hr; cases hr; exact h
  | cons l ls ih =>
    intro s s' hi h hr
    simp only [runLabels] at hr
    split at hr
    · cases hr
    · rename_i s1 hs1
      exact ih s1 s' (inv1_step c hc s s1 l hi hs1) (sinv_step c hc src hsrc idxs hcap s s1 l hi h hs1) hr

/-- a stuck state has the producer parked or exited -/
theorem stuck_prod (c : MonCfg) (s : MonSt) (hstuck : enabledLabels c s = []) :
    (∃ i, s.prod = .parked i) ∨ s.prod = .exited := by
  cases hpp : s.prod with
  | check j =>
    exfalso
    refine enabled_of c s .pCheck (by simp [allLabels]) ?_ hstuck
    simp only [step, hpp]
    split
    · rfl
    · split <;> rfl
  | parked j => exact Or.inl ⟨j, rfl⟩
  | computing j1 j2 loc =>
    exfalso
    refine enabled_of c s .pCompute (by simp [allLabels]) ?_ hstuck
    simp only [step, hpp]
    split
    · rfl
    · split <;> rfl
  | publishing j loc fin =>
    exfalso
    refine enabled_of c s .pPublish (by simp [allLabels]) ?_ hstuck
    simp only [step, hpp, Option.isSome_some]
  | finalPublish loc =>
    exfalso
    refine enabled_of c s .pPublish (by simp [allLabels]) ?_ hstuck
    simp only [step, hpp, Option.isSome_some]
  | exited => exact Or.inr rfl

/-- from the order of the indices and the pointwise answers to the list of answers -/
theorem map_pair {α : Type} (l : List α) (f : α → Nat) (g : α → Bool) (h : Nat → Bool) (idxs : List Nat)
    (h1 : l.map f = idxs) (h2 : ∀ x ∈ l, g x = h (f x)) :
    l.map (fun x => (f x, g x)) = idxs.map (fun i => (i, h i)) := by
  subst h1
  rw [List.map_map]
  apply List.map_congr_left
  intro x hx
  simp [h2 x hx]

end MM
open Mon MM

/-- C04/C06 bridge: a single sequential client, any schedule, final state -/
theorem single_client_final (c : MonCfg) (hc : 0 < c.chunk) (src : Src) (hsrc : SrcOf c src)
    (idxs : List Nat) (hcap : InCapacity c [idxs])
    (ls : List Label) (s : MonSt) (hrun : runLabels c (monInit [idxs]) ls = some s)
    (hstuck : enabledLabels c s = []) :
    -- every call has returned, in order, with the sequential answer
    (∃ r, s.readers = [r] ∧ r.pc = .idle ∧ r.todo = [] ∧
      r.results.reverse.map (fun x => (x.1, x.2.2)) = idxs.map (fun i => (i, src.has i))) ∧
    -- consultations and published length are those of the sequential model
    s.consulted = (memoRun ⟨c.chunk, c.maxChunks⟩ src idxs).consulted ∧
    s.len = src.minLen (memoRun ⟨c.chunk, c.maxChunks⟩ src idxs).maxLength := by
  have hreach : Reachable c [idxs] s := ⟨ls, hrun⟩
  have hi1 := inv1_reachable c hc [idxs] s hreach
  have hi2 := inv2_reachable c hc [idxs] hcap s hreach
  have hcap' : ∀ i ∈ idxs, i < cap c := fun i hi => hcap idxs (by simp) i hi
  obtain ⟨r, hrs, he, ha⟩ :=
    sinv_run c hc src hsrc idxs hcap' ls _ s (inv1_init c [idxs]) (sinv_init c src idxs) hrun
  -- the reader is done
  have hnp : pending s = false := by
    cases hp : pending s with
    | false => rfl
    | true => exact absurd hstuck (mon_deadlock_free c hc [idxs] hcap s hreach hp)
  have hidle : r.pc = .idle ∧ r.todo = [] := by
    simp only [pending, hrs, List.any_cons, List.any_nil, Bool.or_false, Bool.or_eq_false_iff] at hnp
    obtain ⟨h1, h2⟩ := hnp
    constructor
    · simpa using h1
    · simpa using h2
  obtain ⟨hpc, htodo⟩ := hidle
  have hent : r.results.reverse.map (·.1) = idxs := by
    rw [htodo, List.append_nil] at he
    simpa [ent, hpc, cur] using he
  have he' : ent r = idxs := by rw [htodo, List.append_nil] at he; exact he
  rw [he'] at ha
  have hrm : r ∈ s.readers := by rw [hrs]; simp
  have hgood := good_len c s hi1
  refine ⟨⟨r, hrs, hpc, htodo, ?_⟩, ?_⟩
  · apply map_pair r.results.reverse (·.1) (·.2.2) src.has idxs hent
    intro res hres
    rw [List.mem_reverse] at hres
    have h1 := hi1.hres r hrm res hres
    have h2 := (hi2 r hrm).2.2.2 res hres
    show res.2.2 = src.has res.1
    unfold Src.has
    cases hl : src.len with
    | none =>
      simp only []
      cases hok : res.2.2 with
      | true => rfl
      | false =>
        obtain ⟨e, _, hend⟩ := h2.2 hok
        have := hsrc.2 hl e
        rw [hend.1] at this; cases this
    | some L =>
      simp only []
      have hL := hsrc.1 L hl
      have hlen := good_le c src hsrc s.len L hl hgood
      cases hok : res.2.2 with
      | true =>
        rw [h2.1] at hok
        have : res.1 < res.2.1 := of_decide_eq_true hok
        symm; apply decide_eq_true; omega
      | false =>
        obtain ⟨e, hle, hend⟩ := h2.2 hok
        have : ¬ (e < L) := by
          intro hlt
          have := hL.2 e hlt
          rw [hend.1] at this; cases this
        symm; apply decide_eq_false; omega
  · have hcons := hi1.hcons
    have hlc := len_le_consulted c s hi1
    have hM := hi1.hM
    unfold Memo.consulted Src.minLen
    rw [memoRun_src]
    unfold Agree at ha
    rcases stuck_prod c s hstuck with ⟨j, hp⟩ | hp
    · have h := hi1.hprod
      rw [hp] at h
      simp only [PInv] at h
      obtain ⟨_, h2, _, h4, h5⟩ := h
      cases hl : src.len with
      | none => simp only [hl] at ha ⊢; omega
      | some L =>
        simp only [hl] at ha ⊢
        have := good_le c src hsrc s.len L hl h4
        omega
    · rcases exited_cases c src hsrc s hi1 hp with ⟨L, hl, h2, h3⟩ | ⟨h1, h2, h3⟩
      · simp only [hl] at ha ⊢
        omega
      · cases hl : src.len with
        | none => simp only [hl] at ha ⊢; omega
        | some L =>
          simp only [hl] at ha ⊢
          have := good_le c src hsrc s.len L hl hgood
          omega

end Sqroot.Proofs

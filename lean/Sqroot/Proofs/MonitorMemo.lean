/-
Linking L1 (the concurrent monitor) to L2 (the sequential memoizer contract used by C04/C06/C15):
for ONE client thread issuing `wait` calls one after the other, under EVERY interleaving with the
producer, once nothing is enabled any more
  * each call has returned `ok` exactly when its index is a position of the valid digit prefix,
  * the number of source consultations is exactly what the sequential model `Memo` predicts,
    `min(demand, |D| + 1)`, and the published length is `min(demand, |D|)`,
although the demand counter itself may depend on the schedule (a call may see `done = false`
while the producer is still on its way to the end marker).
-/
import Sqroot.Proofs.Monitor
import Sqroot.Model.Memo
namespace Sqroot.Proofs
open Sqroot.Model

/-- the source of a monitor configuration as the sequential model sees it: the valid prefix has
length `L` (first position whose value fails the end test), or is infinite -/
def SrcOf (c : MonCfg) (src : Src) : Prop :=
  (∀ L, src.len = some L → IsEndPos c L) ∧
  (src.len = none → ∀ k, c.endTest (c.src k) = false)

/-- run the sequential model over a list of requested indices -/
def memoRun (mc : MemoCfg) (src : Src) (idxs : List Nat) : Memo :=
  idxs.foldl (fun m i => (m.wait mc i).1) { src := src }

/-- C04/C06 bridge: a single sequential client, any schedule, final state -/
theorem single_client_final (c : MonCfg) (hc : 0 < c.chunk) (src : Src) (hsrc : SrcOf c src)
    (idxs : List Nat) (hcap : InCapacity c [idxs])
    (ls : List Label) (s : MonSt) (hrun : runLabels c (monInit [idxs]) ls = some s)
    (hstuck : enabledLabels c s = []) :
    -- every call has returned, in order, with the sequential answer
    (∃ r, s.readers = [r] ∧ r.pc = .idle ∧ r.todo = [] ∧
      r.results.reverse.map (fun x => (x.1, x.2.2)) = idxs.map (fun i => (i, src.has i))) ∧
    -- consultations and published length are those of the sequential model
    s.consulted = (memoRun ⟨c.chunk, c.maxChunks⟩ src idxs).consulted ∧
    s.len = src.minLen (memoRun ⟨c.chunk, c.maxChunks⟩ src idxs).maxLength := by
  sorry

end Sqroot.Proofs

/-
Helper lemmas for C08: the positional text of `Spec.renderFixed` parses back to the truncated value.
-/
import Sqroot.Proofs.FormatLemmas
import Sqroot.Proofs.FormatParse
namespace Sqroot.Proofs.Fmt
open Sqroot Sqroot.Model

theorem digitChar_facts : ∀ d, d < 10 → (digitChar d).isDigit = true ∧ digitChar d ≠ '_' ∧ (digitChar d).toNat - '0'.toNat = d := by
  decide

theorem valF_append (n : Nat) (l1 l2 : List Char) : valF n (l1 ++ l2) = valF (valF n l1) l2 := by
  simp [valF, List.foldl_append]

theorem valF_zeros (n k : Nat) : valF n (List.replicate k '0') = n * 10 ^ k := by
  induction k generalizing n with
  | zero => simp [valF]
  | succ k ih =>
    have : valF n ('0' :: List.replicate k '0') = valF (n * 10) (List.replicate k '0') := by
      simp [valF]
    rw [List.replicate_succ, this, ih, Nat.pow_succ]
    simp [Nat.mul_assoc, Nat.mul_comm]

theorem valF_digits (n : Nat) (ds : List Nat) (hd : ∀ d ∈ ds, d ≤ 9) :
    valF n (ds.map digitChar) = ds.foldl (fun a d => 10 * a + d) n := by
  induction ds generalizing n with
  | nil => simp [valF]
  | cons d ds ih =>
    have hd9 : d < 10 := by have := hd d (by simp); omega
    obtain ⟨_, h2, h3⟩ := digitChar_facts d hd9
    have : valF n (digitChar d :: ds.map digitChar) = valF (10 * n + d) (ds.map digitChar) := by
      simp only [valF, List.foldl_cons, h2, if_false, h3, Nat.mul_comm]
    rw [List.map_cons, this, ih _ (fun x hx => hd x (List.mem_cons_of_mem _ hx))]
    simp

theorem isDigit_digits (ds : List Nat) (hd : ∀ d ∈ ds, d ≤ 9) : ∀ c ∈ ds.map digitChar, c.isDigit = true := by
  intro c hc
  obtain ⟨d, hd', rfl⟩ := List.mem_map.1 hc
  exact (digitChar_facts d (by have := hd d hd'; omega)).1

theorem isDigit_zeros (k : Nat) : ∀ c ∈ List.replicate k '0', c.isDigit = true := by
  intro c hc
  rw [(List.mem_replicate.1 hc).2]; decide


def fracE (e : Int) (T : Nat) : Nat :=
  if e ≤ 0 then (-e).toNat + T else if T > e.toNat then T - e.toNat else 0

theorem parse_emit (e : Int) (cs : List Char) (hne : cs ≠ []) (hd : ∀ c ∈ cs, c.isDigit = true) :
    Spec.parsePositional (String.ofList (emit e cs)) = some (valF 0 cs, fracE e cs.length) := by
  unfold emit fracE
  simp only [hne, if_false]
  by_cases h1 : e ≤ 0
  · simp only [h1, if_true]
    have := parse_frac ['0'] (List.replicate (-e).toNat '0' ++ cs) (by simp) (by simp)
      (by
        intro c hc; rcases List.mem_append.1 hc with h | h
        · exact isDigit_zeros _ c h
        · exact hd c h)
    simp only [List.cons_append, List.nil_append] at this
    rw [this]
    have hv : valF 0 ('0' :: (List.replicate (-e).toNat '0' ++ cs)) = valF 0 cs := by
      have h0 : valF 0 ['0'] = 0 := by simp [valF]
      have : '0' :: (List.replicate (-e).toNat '0' ++ cs) = ['0'] ++ (List.replicate (-e).toNat '0' ++ cs) := rfl
      rw [this, valF_append, valF_append, h0, valF_zeros]; simp
    simp [hv]
  · simp only [h1, if_false]
    by_cases h2 : cs.length > e.toNat
    · simp only [h2, if_true]
      have hpos : 0 < e.toNat := by omega
      have hane : cs.take e.toNat ≠ [] := by
        intro h
        have h3 : (cs.take e.toNat).length = 0 := by rw [h]; rfl
        rw [List.length_take] at h3
        omega
      have := parse_frac (cs.take e.toNat) (cs.drop e.toNat) hane
        (fun c hc => hd c (List.mem_of_mem_take hc)) (fun c hc => hd c (List.mem_of_mem_drop hc))
      rw [this, List.take_append_drop]
      simp
    · simp only [h2, if_false]
      exact parse_int cs hne hd

theorem parse_zeroText (count : Int) :
    Spec.parsePositional (String.ofList (zeroText count)) = some (0, if count ≤ 0 then 0 else count.toNat) := by
  unfold zeroText
  split
  · have := parse_int ['0'] (by simp) (by simp)
    rw [this]; simp [valF]
  · have := parse_frac ['0'] (List.replicate count.toNat '0') (by simp) (by simp) (isDigit_zeros _)
    simp only [List.cons_append, List.nil_append] at this
    rw [this]
    have h0 : valF 0 ['0'] = 0 := by simp [valF]
    have : '0' :: List.replicate count.toNat '0' = ['0'] ++ List.replicate count.toNat '0' := rfl
    rw [this, valF_append, h0, valF_zeros]; simp

/-- the fractional-digit count of the rendering -/
def fracOf (s e : Int) (ex : Bool) (T : Nat) : Nat :=
  if T = 0 then (if (if ex then s - e else -e) ≤ 0 then 0 else (if ex then s - e else -e).toNat)
  else fracE e T

theorem renderFixed_parse (s e : Int) (ex : Bool) (D : List Nat) (hd : ∀ d ∈ D, d ≤ 9) :
    Spec.parsePositional (Spec.renderFixed s e ex D) =
      some (Spec.ofDigitList (D.take s.toNat) *
              10 ^ ((if ex then s.toNat else max (D.take s.toNat).length e.toNat) - (D.take s.toNat).length),
            fracOf s e ex (if ex then s.toNat else max (D.take s.toNat).length e.toNat)) := by
  rw [renderFixed_eq]
  unfold fixedText
  simp only
  generalize hds : D.take s.toNat = ds
  have hd' : ∀ d ∈ ds, d ≤ 9 := by
    intro d h; subst hds; exact hd d (List.mem_of_mem_take h)
  have hn : ds.length ≤ s.toNat := by subst hds; simp [List.length_take]; omega
  generalize hT : (if ex = true then s.toNat else max ds.length e.toNat) = T
  have hk : ((if ex = true then s else e) - ((ds.map digitChar).length : Int)).toNat = T - ds.length := by
    subst hT; simp only [List.length_map]; split <;> omega
  rw [hk]
  have hTn : ds.length ≤ T := by subst hT; split <;> omega
  generalize hcs' : ds.map digitChar ++ List.replicate (T - ds.length) '0' = cs'
  have hlen : cs'.length = T := by subst hcs'; simp; omega
  have hdig : ∀ c ∈ cs', c.isDigit = true := by
    subst hcs'
    intro c hc; rcases List.mem_append.1 hc with h | h
    · exact isDigit_digits ds hd' c h
    · exact isDigit_zeros _ c h
  have hval : valF 0 cs' = Spec.ofDigitList ds * 10 ^ (T - ds.length) := by
    subst hcs'
    rw [valF_append, valF_digits 0 ds hd', valF_zeros]; rfl
  by_cases h0 : T = 0
  · have hc : cs' = [] := List.length_eq_zero_iff.mp (by omega)
    have hds0 : ds = [] := List.length_eq_zero_iff.mp (by omega)
    simp only [hc, if_true, parse_zeroText, fracOf, h0]
    subst hds0
    simp [Spec.ofDigitList]
  · have hc : cs' ≠ [] := by intro h; subst h; simp at hlen; omega
    simp only [hc, if_false, parse_emit e cs' hc hdig, hval, hlen, fracOf, h0]


theorem pow_balance (M a b c d : Nat) (h : a + b = c + d) :
    M * 10 ^ a * 10 ^ b = M * 10 ^ c * 10 ^ d := by
  rw [Nat.mul_assoc, Nat.mul_assoc, ← Nat.pow_add, ← Nat.pow_add, h]

theorem renderFixed_value' (s e : Int) (exact : Bool) (D : List Nat) (hd : ∀ d ∈ D, d ≤ 9) (hs : e ≤ s) :
    ∃ N frac, Spec.parsePositional (Spec.renderFixed s e exact D) = some (N, frac) ∧
      let ds := D.take s.toNat
      N * 10 ^ ((ds.length : Int) - e).toNat = Spec.ofDigitList ds * 10 ^ (e - (ds.length : Int)).toNat * 10 ^ frac := by
  refine ⟨_, _, renderFixed_parse s e exact D hd, ?_⟩
  simp only
  generalize hds : D.take s.toNat = ds
  have hn : ds.length ≤ s.toNat := by subst hds; simp [List.length_take]; omega
  generalize hT : (if exact = true then s.toNat else max ds.length e.toNat) = T
  have hTn : ds.length ≤ T := by subst hT; split <;> omega
  have hTe : e.toNat ≤ T := by subst hT; split <;> omega
  unfold fracOf fracE
  by_cases h0 : T = 0
  · have hds0 : ds = [] := List.length_eq_zero_iff.mp (by omega)
    subst hds0
    simp [Spec.ofDigitList]
  · simp only [h0, if_false]
    apply pow_balance
    split
    · omega
    · split <;> omega

theorem renderFixed_exact_frac' (s e : Int) (D : List Nat) (hd : ∀ d ∈ D, d ≤ 9) (hs : e ≤ s) :
    ∃ N frac, Spec.parsePositional (Spec.renderFixed s e true D) = some (N, frac) ∧
      (frac : Int) = s - e := by
  refine ⟨_, _, renderFixed_parse s e true D hd, ?_⟩
  simp only [if_true]
  unfold fracOf fracE
  simp only [if_true]
  split
  · split <;> omega
  · split
    · omega
    · split <;> omega

end Sqroot.Proofs.Fmt

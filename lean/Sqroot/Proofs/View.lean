/-
Lemmas for C04 (read paths agree, history independent), C07 (views compose as interval
intersection) and C17 (finite interface types only on bounded values).
-/
import Sqroot.Model.View
import Sqroot.Spec.View
namespace Sqroot.Proofs
open Sqroot.Model

def toSpecOp : ViewOp → Spec.VOp
  | .withStart s => .withStart s
  | .withEnd e => .withEnd e
  | .withSig k => .withSig k
  | .finiteWithStart s => .finiteWithStart s

/-- apply a chain to a v3 value; `none` if some op is not in the method set of the value it is
applied to or panics (negative WithSignificant) -/
def applyChain3 : Val3 → List ViewOp → Option Val3
  | v, [] => some v
  | v, op :: rest =>
    match v.apply op with
    | some (.ok v') => applyChain3 v' rest
    | _ => none

def applyChain12 : Val12 → List ViewOp → Option Val12
  | v, [] => some v
  | v, op :: rest =>
    match v.apply op with
    | some (.ok v') => applyChain12 v' rest
    | _ => none

/-- a non-zero base Number as the constructors return it -/
def IsBase3 (v : Val3) : Prop := ∃ e, v = .fnum .memo e ∨ v = .opqN .memo e

/-- the configuration is sane and everything the traversal can touch fits the memoizer's
capacity (in Go: positions ≤ MaxInt − 8) -/
def Fits (c : MemoCfg) (src : Src) (w : Spec.Win) (take : Nat) : Prop :=
  0 < c.chunk ∧
  (match src.len with
   | some L => L < c.chunk * c.maxChunks
   | none => (max w.lo 0).toNat + take < c.chunk * c.maxChunks)

/-- C07 (v3): the forward traversal of any view obtained by any chain is exactly the window
`max(0, starts) ≤ p < min(|D|, ends)`; C04: whatever the memoizer's state `m.maxLength`
(= whatever was read before) -/
theorem forward_chain3 (c : MemoCfg) (m : Memo) (b v : Val3) (chain : List ViewOp) (take : Nat)
    (hb : IsBase3 b) (hv : applyChain3 b chain = some v)
    (hfit : Fits c m.src (Spec.winOf (chain.map toSpecOp)) take) :
    ∃ m', v.forward c m take
        = .ok (m', Spec.windowList m.src.len m.src.digit (Spec.winOf (chain.map toSpecOp)) take)
      ∧ m'.src = m.src := by
  sorry

/-- C07 (v3): the backward traversal is the exact reverse of the complete forward listing -/
theorem backward_chain3 (c : MemoCfg) (m : Memo) (b v : Val3) (chain : List ViewOp) (take n : Nat)
    (hb : IsBase3 b) (hv : applyChain3 b chain = some v)
    (hn : Spec.windowSize m.src.len (Spec.winOf (chain.map toSpecOp)) = some n)
    (hfit : Fits c m.src (Spec.winOf (chain.map toSpecOp)) n) :
    (v.backward c m take).2
      = ((Spec.windowList m.src.len m.src.digit (Spec.winOf (chain.map toSpecOp)) n).reverse).take take := by
  sorry

/-- C04: `At(p)` on a Number reached by a chain of WithSignificant calls (limit `hi`) reports the
digit iff `0 ≤ p < min(|D|, hi)`, else −1 — in any memoizer state -/
def underLimit (sp : VSpec) (p : Int) : Bool :=
  match sp with
  | .limited l => decide (p < l)
  | _ => true

theorem at_spec (c : MemoCfg) (m : Memo) (sp : VSpec) (p : Int) (hc : 0 < c.chunk)
    (hfit : match m.src.len with
      | some L => L < c.chunk * c.maxChunks
      | none => p < c.chunk * c.maxChunks) (hsp : sp ≠ .nil) :
    (specAt c m sp p).2 =
      (if 0 ≤ p ∧ m.src.has p.toNat = true ∧ underLimit sp p = true
       then (m.src.digit p.toNat : Int) else -1) := by
  sorry

/-- C04: a live pull iterator delivers consecutive positions whatever happens to the memoizer
between its calls (other readers, other iterators): `ItOk` is all it relies on. -/
def ItOk (src : Src) (it : PullIt) : Prop :=
  it.initialized = true →
    (it.ok = decide (it.index < it.snap)) ∧ (it.ok = true → src.has (it.snap - 1) = true) ∧
    (it.ok = false → src.has it.index = false)

theorem pull3_spec (c : MemoCfg) (m : Memo) (it : PullIt) (hc : 0 < c.chunk)
    (hfit : match m.src.len with
      | some L => L < c.chunk * c.maxChunks
      | none => it.index + 1 < c.chunk * c.maxChunks)
    (hit : ItOk m.src it) :
    let r := m.pull3 c it
    ItOk m.src r.2.1 ∧ r.1.src = m.src ∧
    (r.2.2 = (if m.src.has it.index = true ∧ (it.index : Int) < it.limit
              then some (it.index, m.src.digit it.index) else none)) ∧
    (r.2.1.index = if r.2.2.isSome then it.index + 1 else it.index) ∧ r.2.1.limit = it.limit := by
  sorry

/-- C07 (v1/v2): pull traversal of a chain result -/
theorem forward_chain12 (c : MemoCfg) (m : Memo) (v : Val12) (chain : List ViewOp) (e : Int) (take : Nat)
    (hv : applyChain12 (.num .memo e) chain = some v)
    (hfit : Fits c m.src (Spec.winOf (chain.map toSpecOp)) (take + 1)) :
    (spec12Iterate c m v.spec v.start.toNat take).2
      = Spec.windowList m.src.len m.src.digit (Spec.winOf (chain.map toSpecOp)) take := by
  sorry

/-- C07: the window depends only on the multiset of bounds, not on the order of the chain -/
theorem winOf_perm (c₁ c₂ : List Spec.VOp) (h : c₁.Perm c₂) : Spec.winOf c₁ = Spec.winOf c₂ := by
  sorry

/-- C07: WithSignificant keeps the exponent while a digit can remain and gives the zero number
(exponent 0) otherwise -/
theorem withSig_exponent (sp : VSpec) (e k : Int) (hk : 0 ≤ k) (hsp : sp ≠ .nil) :
    ∃ v, (Val3.opqN sp e).apply (.withSig k) = some (.ok v) ∧
      (Val3.fnum sp e).apply (.withSig k) = some (.ok v) ∧
      (0 < k → v.exponent = some e ∧ v.isZero = false) ∧
      (k = 0 → v = zero3) := by
  sorry

/-- C17: a value reached from a base constructor by any chain asserts to FiniteSequence iff it is
bounded by construction; `*FiniteNumber` implies FiniteSequence; Number values are exactly the
results of number-preserving chains -/
theorem finite_iff_bounded (b v : Val3) (chain : List ViewOp)
    (hb : ∃ sp e, b = .fnum sp e ∨ b = .opqN sp e) (hv : applyChain3 b chain = some v) :
    v.assertsFiniteSeq = Spec.boundedByConstruction b.assertsFiniteSeq (chain.map toSpecOp) ∧
    (v.assertsFiniteNum = true → v.assertsFiniteSeq = true) := by
  sorry

/-- C17 corollary: no chain of WithStart calls on an unbounded Number yields a finite type -/
theorem withStart_chain_not_finite (sp : VSpec) (e : Int) (starts : List Int) (v : Val3)
    (hv : applyChain3 (.opqN sp e) (starts.map .withStart) = some v) :
    v.assertsFiniteSeq = false ∧ v.assertsFiniteNum = false := by
  sorry

end Sqroot.Proofs

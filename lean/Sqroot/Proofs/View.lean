/-
Lemmas for C04 (read paths agree, history independent), C07 (views compose as interval
intersection) and C17 (finite interface types only on bounded values).
-/
import Sqroot.Model.View
import Sqroot.Spec.View
import Sqroot.Proofs.ViewLemmas
namespace Sqroot.Proofs
open Sqroot.Model

def toSpecOp : ViewOp → Spec.VOp
  | .withStart s => .withStart s
  | .withEnd e => .withEnd e
  | .withSig k => .withSig k
  | .finiteWithStart s => .finiteWithStart s

/-- apply a chain to a v3 value; `none` if some op is not in the method set of the value it is
applied to or panics (negative WithSignificant) -/
def applyChain3 : Val3 → List ViewOp → Option Val3
  | v, [] => some v
  | v, op :: rest =>
    match v.apply op with
    | some (.ok v') => applyChain3 v' rest
    | _ => none

def applyChain12 : Val12 → List ViewOp → Option Val12
  | v, [] => some v
  | v, op :: rest =>
    match v.apply op with
    | some (.ok v') => applyChain12 v' rest
    | _ => none

/-- a non-zero base Number as the constructors return it -/
def IsBase3 (v : Val3) : Prop := ∃ e, v = .fnum .memo e ∨ v = .opqN .memo e

/-- the configuration is sane and everything the traversal can touch fits the memoizer's
capacity (in Go: positions ≤ MaxInt − 8), which itself does not exceed `MaxInt` -/
def Fits (c : MemoCfg) (src : Src) (w : Spec.Win) (take : Nat) : Prop :=
  0 < c.chunk ∧ ((c.chunk * c.maxChunks : Nat) : Int) ≤ maxInt ∧
  (match src.len with
   | some L => L < c.chunk * c.maxChunks
   | none => (max w.lo 0).toNat + take < c.chunk * c.maxChunks)


namespace ViewL

/-- representation invariant of a v3 value w.r.t. a window -/
def Rep3 (v : Val3) (w : Spec.Win) : Prop := v.start = max w.lo 0 ∧ SpecRep v.spec w.hi

def Rep12 (v : Val12) (w : Spec.Win) : Prop := v.start = max w.lo 0 ∧ SpecRep v.spec w.hi

theorem fnumWithSpec_spec (sp : VSpec) (ex : Int) (r : VSpec × Bool) :
    (fnumWithSpec sp ex r).spec = (if r.2 = true then sp else r.1) ∧ (fnumWithSpec sp ex r).start = 0 := by
  unfold fnumWithSpec
  by_cases h : r.2 = true
  · simp [h, Val3.spec, Val3.start]
  · by_cases h2 : r.1 = .nil
    · simp [h, h2, zero3, Val3.spec, Val3.start]
    · simp [h, h2, Val3.spec, Val3.start]

theorem numWithSpec_spec (sp : VSpec) (ex : Int) (r : VSpec × Bool) :
    (numWithSpec sp ex r).1 = (if r.2 = true then sp else r.1) := by
  unfold numWithSpec
  by_cases h : r.2 = true
  · simp [h]
  · by_cases h2 : r.1 = .nil
    · simp [h, h2]
    · simp [h, h2]

theorem rep_end (v' : Val3) (sp : VSpec) (st : Int) (w : Spec.Win) (e : Int)
    (hst : st = max w.lo 0) (hsp : SpecRep sp w.hi)
    (h1 : v'.spec = (if (withLimit sp e).2 = true then sp else (withLimit sp e).1))
    (h2 : v'.start = st) :
    Rep3 v' { w with hi := Spec.minOpt w.hi e } :=
  ⟨by rw [h2, hst], by rw [h1]; exact withLimit_rep sp w.hi e hsp⟩

theorem step3 (v v' : Val3) (w : Spec.Win) (op : ViewOp) (hrep : Rep3 v w)
    (h : v.apply op = some (.ok v')) : Rep3 v' (w.apply (toSpecOp op)) := by
  obtain ⟨hst, hsp⟩ := hrep
  cases v with
  | fnum sp ex =>
    simp only [Val3.start, Val3.spec] at hst hsp
    cases op with
    | withStart s =>
      simp only [Val3.apply, Option.some.injEq, Except.ok.injEq] at h
      subst h
      by_cases hs : s ≤ 0
      · rw [if_pos hs]; exact ⟨by simp only [Val3.start, toSpecOp, Spec.Win.apply]; omega, hsp⟩
      · rw [if_neg hs]; exact ⟨by simp only [Val3.start, toSpecOp, Spec.Win.apply]; omega, hsp⟩
    | finiteWithStart s =>
      simp only [Val3.apply, Option.some.injEq, Except.ok.injEq] at h
      subst h
      by_cases hs : s ≤ 0
      · rw [if_pos hs]; exact ⟨by simp only [Val3.start, toSpecOp, Spec.Win.apply]; omega, hsp⟩
      · rw [if_neg hs]; exact ⟨by simp only [Val3.start, toSpecOp, Spec.Win.apply]; omega, hsp⟩
    | withEnd e =>
      simp only [Val3.apply, Option.some.injEq, Except.ok.injEq] at h
      subst h
      exact rep_end _ sp 0 w e hst hsp (fnumWithSpec_spec _ _ _).1 (fnumWithSpec_spec _ _ _).2
    | withSig k =>
      simp only [Val3.apply] at h
      by_cases hk : k < 0
      · rw [if_pos hk] at h; cases h
      · rw [if_neg hk] at h
        simp only [Option.some.injEq, Except.ok.injEq] at h
        subst h
        exact rep_end _ sp 0 w k hst hsp (fnumWithSpec_spec _ _ _).1 (fnumWithSpec_spec _ _ _).2
  | opqN sp ex =>
    simp only [Val3.start, Val3.spec] at hst hsp
    cases op with
    | withStart s =>
      simp only [Val3.apply, Option.some.injEq, Except.ok.injEq] at h
      subst h
      by_cases hs : s ≤ 0
      · rw [if_pos hs]; exact ⟨by simp only [Val3.start, toSpecOp, Spec.Win.apply]; omega, hsp⟩
      · rw [if_neg hs]; exact ⟨by simp only [Val3.start, toSpecOp, Spec.Win.apply]; omega, hsp⟩
    | finiteWithStart s => simp [Val3.apply] at h
    | withEnd e =>
      simp only [Val3.apply, Option.some.injEq, Except.ok.injEq] at h
      subst h
      exact rep_end _ sp 0 w e hst hsp (fnumWithSpec_spec _ _ _).1 (fnumWithSpec_spec _ _ _).2
    | withSig k =>
      simp only [Val3.apply] at h
      by_cases hk : k < 0
      · rw [if_pos hk] at h; cases h
      · rw [if_neg hk] at h
        simp only [Option.some.injEq, Except.ok.injEq] at h
        subst h
        exact rep_end _ sp 0 w k hst hsp (fnumWithSpec_spec _ _ _).1 (fnumWithSpec_spec _ _ _).2
  | mws sp st =>
    simp only [Val3.start, Val3.spec] at hst hsp
    cases op with
    | withStart s =>
      simp only [Val3.apply, Option.some.injEq, Except.ok.injEq] at h
      subst h
      by_cases hs : s ≤ st
      · rw [if_pos hs]; exact ⟨by simp only [Val3.start, toSpecOp, Spec.Win.apply]; omega, hsp⟩
      · rw [if_neg hs]; exact ⟨by simp only [Val3.start, toSpecOp, Spec.Win.apply]; omega, hsp⟩
    | finiteWithStart s =>
      simp only [Val3.apply, Option.some.injEq, Except.ok.injEq] at h
      subst h
      by_cases hs : s ≤ st
      · rw [if_pos hs]; exact ⟨by simp only [Val3.start, toSpecOp, Spec.Win.apply]; omega, hsp⟩
      · rw [if_neg hs]; exact ⟨by simp only [Val3.start, toSpecOp, Spec.Win.apply]; omega, hsp⟩
    | withEnd e =>
      simp only [Val3.apply, Option.some.injEq, Except.ok.injEq] at h
      subst h
      refine rep_end _ sp st w e hst hsp ?_ ?_
      · by_cases hr : (withLimit sp e).2 = true <;> simp [hr, Val3.spec]
      · by_cases hr : (withLimit sp e).2 = true <;> simp [hr, Val3.start]
    | withSig k => simp [Val3.apply] at h
  | opqS sp st =>
    simp only [Val3.start, Val3.spec] at hst hsp
    cases op with
    | withStart s =>
      simp only [Val3.apply, Option.some.injEq, Except.ok.injEq] at h
      subst h
      by_cases hs : s ≤ st
      · rw [if_pos hs]; exact ⟨by simp only [Val3.start, toSpecOp, Spec.Win.apply]; omega, hsp⟩
      · rw [if_neg hs]; exact ⟨by simp only [Val3.start, toSpecOp, Spec.Win.apply]; omega, hsp⟩
    | finiteWithStart s => simp [Val3.apply] at h
    | withEnd e =>
      simp only [Val3.apply, Option.some.injEq, Except.ok.injEq] at h
      subst h
      refine rep_end _ sp st w e hst hsp ?_ ?_
      · by_cases hr : (withLimit sp e).2 = true <;> simp [hr, Val3.spec]
      · by_cases hr : (withLimit sp e).2 = true <;> simp [hr, Val3.start]
    | withSig k => simp [Val3.apply] at h

theorem chain3 : ∀ (chain : List ViewOp) (v v' : Val3) (w : Spec.Win), Rep3 v w →
    applyChain3 v chain = some v' → Rep3 v' ((chain.map toSpecOp).foldl Spec.Win.apply w)
  | [], v, v', w, hrep, h => by
    simp only [applyChain3, Option.some.injEq] at h
    subst h; exact hrep
  | op :: rest, v, v', w, hrep, h => by
    unfold applyChain3 at h
    cases ha : v.apply op with
    | none => rw [ha] at h; cases h
    | some r =>
      cases r with
      | error e => rw [ha] at h; cases h
      | ok v1 =>
        rw [ha] at h
        simp only at h
        simp only [List.map_cons, List.foldl_cons]
        exact chain3 rest v1 v' _ (step3 v v1 w op hrep ha) h

theorem base3 (b : Val3) (hb : IsBase3 b) : Rep3 b {} := by
  obtain ⟨e, h | h⟩ := hb <;> subst h <;> exact ⟨by simp [Val3.start], rfl⟩

theorem forward_of_rep (c : MemoCfg) (m : Memo) (v : Val3) (w : Spec.Win) (take : Nat)
    (hrep : Rep3 v w) (hfit : Fits c m.src w take) :
    ∃ m', v.forward c m take = .ok (m', Spec.windowList m.src.len m.src.digit w take)
      ∧ m'.src = m.src := by
  obtain ⟨hst, hsp⟩ := hrep
  obtain ⟨hc, hmax, hcap⟩ := hfit
  obtain ⟨lo, hi⟩ := w
  simp only at hst hsp hcap
  unfold Val3.forward specScan
  cases hspv : v.spec with
  | nil =>
    rw [hspv] at hsp
    obtain ⟨h, hh, hle⟩ := hsp
    refine ⟨m, ?_, rfl⟩
    simp only
    have : Spec.windowList m.src.len m.src.digit ⟨lo, hi⟩ take = [] := by
      unfold Spec.windowList Spec.upper
      simp only [hh]
      cases hl : m.src.len with
      | none =>
        simp only
        have : min take (h - ((max lo 0).toNat : Int)).toNat = 0 := by omega
        rw [this]; simp
      | some L =>
        simp only
        have : min take (min h (L : Int) - ((max lo 0).toNat : Int)).toNat = 0 := by omega
        rw [this]; simp
    rw [this]
  | memo =>
    rw [hspv] at hsp
    have hh : hi = none := hsp
    subst hh
    simp only
    have hcs : CapScan c m.src v.start.toNat take := by
      unfold CapScan
      cases hl : m.src.len with
      | none => rw [hl] at hcap; simp only at hcap ⊢; rw [hst]; omega
      | some L => rw [hl] at hcap; exact hcap
    obtain ⟨m', hscan, hm'⟩ := scan_spec c hc m v.start maxInt take (by omega) hcs
    refine ⟨m', ?_, hm'⟩
    rw [hscan]
    congr 2
    unfold Spec.windowList Spec.upper
    simp only
    rw [hst]
    congr 2
    cases hl : m.src.len with
    | none => rw [hl] at hcap; simp only [ub] at hcap ⊢; omega
    | some L => rw [hl] at hcap; simp only [ub] at hcap ⊢; omega
  | limited l =>
    rw [hspv] at hsp
    obtain ⟨hh, hl0⟩ := hsp
    subst hh
    simp only
    have hcs : CapScan c m.src (min v.start l).toNat take := by
      unfold CapScan
      cases hl : m.src.len with
      | none => rw [hl] at hcap; simp only at hcap ⊢; rw [hst]; omega
      | some L => rw [hl] at hcap; exact hcap
    obtain ⟨m', hscan, hm'⟩ := scan_spec c hc m (min v.start l) (min maxInt l) take (by omega) hcs
    refine ⟨m', ?_, hm'⟩
    rw [hscan]
    congr 2
    unfold Spec.windowList Spec.upper
    simp only
    rw [hst]
    by_cases hle : max lo 0 ≤ l
    · have : min (max lo 0) l = max lo 0 := by omega
      rw [this]
      congr 2
      cases hl : m.src.len with
      | none => rw [hl] at hcap; simp only [ub] at hcap ⊢; omega
      | some L => rw [hl] at hcap; simp only [ub] at hcap ⊢; omega
    · have h1 : min take (ub m.src.len (min maxInt l) - min (max lo 0) l).toNat = 0 := by
        cases hl : m.src.len <;> simp only [ub] <;> omega
      rw [h1]
      cases hl : m.src.len with
      | none =>
        simp only
        have : min take (l - ((max lo 0).toNat : Int)).toNat = 0 := by omega
        rw [this]; simp
      | some L =>
        simp only
        have : min take (min l (L : Int) - ((max lo 0).toNat : Int)).toNat = 0 := by omega
        rw [this]; simp

theorem allDigits_of_rep (c : MemoCfg) (m : Memo) (sp : VSpec) (st : Int) (w : Spec.Win) (n : Nat)
    (hst : st = max w.lo 0) (hsp : SpecRep sp w.hi)
    (hn : Spec.windowSize m.src.len w = some n) (hfit : Fits c m.src w n) :
    (specAllDigits c m sp).2 - st.toNat = n := by
  obtain ⟨hc, hmax, hcap⟩ := hfit
  obtain ⟨lo, hi⟩ := w
  simp only at hst hsp hcap
  have hmi : (0 : Int) < maxInt := by decide
  unfold Spec.windowSize Spec.upper at hn
  simp only at hn
  unfold specAllDigits
  cases sp with
  | nil =>
    obtain ⟨h, hh, hle⟩ := hsp
    subst hh
    simp only
    cases hl : m.src.len with
    | none => rw [hl] at hn; simp only [Option.map_some, Option.some.injEq] at hn; omega
    | some L => rw [hl] at hn; simp only [Option.map_some, Option.some.injEq] at hn; omega
  | memo =>
    have hh : hi = none := hsp
    subst hh
    simp only
    cases hl : m.src.len with
    | none => rw [hl] at hn; simp at hn
    | some L =>
      rw [hl] at hn hcap
      simp only [Option.map_some, Option.some.injEq] at hn hcap
      rw [firstN_spec c hc m maxInt hmi (by unfold Cap; rw [hl]; exact hcap)]
      simp only [Src.minLen, hl]
      omega
  | limited l =>
    obtain ⟨hh, hl0⟩ := hsp
    subst hh
    simp only
    cases hl : m.src.len with
    | none =>
      rw [hl] at hn hcap
      simp only [Option.map_some, Option.some.injEq] at hn hcap
      have hlt : maxInt > l := by omega
      rw [if_pos hlt, firstN_spec c hc m l hl0 (by unfold Cap; rw [hl]; simp only; omega)]
      simp only [Src.minLen, hl]
      omega
    | some L =>
      rw [hl] at hn hcap
      simp only [Option.map_some, Option.some.injEq] at hn hcap
      by_cases hlt : maxInt > l
      · rw [if_pos hlt, firstN_spec c hc m l hl0 (by unfold Cap; rw [hl]; exact hcap)]
        simp only [Src.minLen, hl]
        omega
      · rw [if_neg hlt, firstN_spec c hc m maxInt hmi (by unfold Cap; rw [hl]; exact hcap)]
        simp only [Src.minLen, hl]
        omega

theorem windowList_full (len : Option Nat) (digit : Nat → Nat) (w : Spec.Win) (n : Nat)
    (hn : Spec.windowSize len w = some n) :
    Spec.windowList len digit w n = (List.range' (max w.lo 0).toNat n).map fun p => (p, digit p) := by
  unfold Spec.windowSize at hn
  unfold Spec.windowList
  simp only
  cases hu : Spec.upper len w with
  | none => simp [hu] at hn
  | some u =>
    rw [hu] at hn
    simp only [Option.map_some, Option.some.injEq] at hn
    simp only
    congr 2
    omega

theorem backward_of_rep (c : MemoCfg) (m : Memo) (v : Val3) (w : Spec.Win) (take n : Nat)
    (hrep : Rep3 v w) (hn : Spec.windowSize m.src.len w = some n) (hfit : Fits c m.src w n) :
    (v.backward c m take).2 = ((Spec.windowList m.src.len m.src.digit w n).reverse).take take := by
  unfold Val3.backward
  by_cases ht : take = 0
  · simp [ht]
  · rw [if_neg ht]
    have hN := allDigits_of_rep c m v.spec v.start w n hrep.1 hrep.2 hn hfit
    rw [windowList_full _ _ _ _ hn]
    cases hsd : specAllDigits c m v.spec with
    | mk m' N =>
      rw [hsd] at hN
      simp only at hN ⊢
      rw [List.filter_reverse, filter_range_ge, hN, ← hrep.1, ← List.map_reverse, List.map_take]


theorem at_memo (c : MemoCfg) (m : Memo) (p : Int) (hc : 0 < c.chunk)
    (hcap : 0 ≤ p → Cap c m.src p.toNat) :
    (m.at c p).2 = (if 0 ≤ p ∧ m.src.has p.toNat = true then (m.src.digit p.toNat : Int) else -1) := by
  unfold Memo.at
  by_cases hp : p < 0
  · rw [if_pos hp, if_neg (by omega)]
  · rw [if_neg hp]
    obtain ⟨m', snap', ok', hw, hm', hs'⟩ := wait_snapOk c m p.toNat hc (hcap (by omega))
    rw [hw]
    simp only
    rw [hs'.has_eq]
    cases ok' <;> simp <;> omega

theorem step12 (v v' : Val12) (w : Spec.Win) (op : ViewOp) (hrep : Rep12 v w)
    (h : v.apply op = some (.ok v')) : Rep12 v' (w.apply (toSpecOp op)) := by
  obtain ⟨hst, hsp⟩ := hrep
  cases v with
  | num sp ex =>
    simp only [Val12.start, Val12.spec] at hst hsp
    cases op with
    | withStart s =>
      simp only [Val12.apply, Option.some.injEq, Except.ok.injEq] at h
      subst h
      by_cases hs : s ≤ 0
      · rw [if_pos hs]; exact ⟨by simp only [Val12.start, toSpecOp, Spec.Win.apply]; omega, hsp⟩
      · rw [if_neg hs]; exact ⟨by simp only [Val12.start, toSpecOp, Spec.Win.apply]; omega, hsp⟩
    | finiteWithStart s => simp [Val12.apply] at h
    | withEnd e =>
      simp only [Val12.apply, Option.some.injEq, Except.ok.injEq] at h
      subst h
      refine ⟨by simp only [Val12.start, toSpecOp, Spec.Win.apply]; exact hst, ?_⟩
      simp only [Val12.spec, numWithSpec_spec, toSpecOp, Spec.Win.apply]
      exact withLimit_rep sp w.hi e hsp
    | withSig k =>
      simp only [Val12.apply] at h
      by_cases hk : k < 0
      · rw [if_pos hk] at h; cases h
      · rw [if_neg hk] at h
        simp only [Option.some.injEq, Except.ok.injEq] at h
        subst h
        refine ⟨by simp only [Val12.start, toSpecOp, Spec.Win.apply]; exact hst, ?_⟩
        simp only [Val12.spec, numWithSpec_spec, toSpecOp, Spec.Win.apply]
        exact withLimit_rep sp w.hi k hsp
  | nws sp ex st =>
    simp only [Val12.start, Val12.spec] at hst hsp
    cases op with
    | withStart s =>
      simp only [Val12.apply, Option.some.injEq, Except.ok.injEq] at h
      subst h
      by_cases hs : s ≤ st
      · rw [if_pos hs]; exact ⟨by simp only [Val12.start, toSpecOp, Spec.Win.apply]; omega, hsp⟩
      · rw [if_neg hs]; exact ⟨by simp only [Val12.start, toSpecOp, Spec.Win.apply]; omega, hsp⟩
    | finiteWithStart s => simp [Val12.apply] at h
    | withEnd e =>
      simp only [Val12.apply, Option.some.injEq, Except.ok.injEq] at h
      subst h
      refine ⟨by simp only [Val12.start, toSpecOp, Spec.Win.apply]; exact hst, ?_⟩
      simp only [Val12.spec, numWithSpec_spec, toSpecOp, Spec.Win.apply]
      exact withLimit_rep sp w.hi e hsp
    | withSig k => simp [Val12.apply] at h

theorem chain12 : ∀ (chain : List ViewOp) (v v' : Val12) (w : Spec.Win), Rep12 v w →
    applyChain12 v chain = some v' → Rep12 v' ((chain.map toSpecOp).foldl Spec.Win.apply w)
  | [], v, v', w, hrep, h => by
    simp only [applyChain12, Option.some.injEq] at h
    subst h; exact hrep
  | op :: rest, v, v', w, hrep, h => by
    unfold applyChain12 at h
    cases ha : v.apply op with
    | none => rw [ha] at h; cases h
    | some r =>
      cases r with
      | error e => rw [ha] at h; cases h
      | ok v1 =>
        rw [ha] at h
        simp only at h
        simp only [List.map_cons, List.foldl_cons]
        exact chain12 rest v1 v' _ (step12 v v1 w op hrep ha) h

theorem iterate_of_rep (c : MemoCfg) (m : Memo) (v : Val12) (w : Spec.Win) (take : Nat)
    (hrep : Rep12 v w) (hfit : Fits c m.src w (take + 1)) :
    (spec12Iterate c m v.spec v.start.toNat take).2 = Spec.windowList m.src.len m.src.digit w take := by
  obtain ⟨hst, hsp⟩ := hrep
  obtain ⟨hc, _, hcap⟩ := hfit
  have hcp : CapPull c m.src v.start.toNat take := by
    unfold CapPull
    cases hl : m.src.len with
    | none => rw [hl] at hcap; simp only at hcap ⊢; rw [hst]; omega
    | some L => rw [hl] at hcap; exact hcap
  rw [spec12Iterate_spec c hc m v.spec w.hi v.start.toNat take hsp hcp, hst]
  unfold Spec.windowList Spec.upper
  simp only
  congr 2

theorem win_comm (w : Spec.Win) (a b : Spec.VOp) : (w.apply a).apply b = (w.apply b).apply a := by
  obtain ⟨lo, hi⟩ := w
  cases a <;> cases b <;> simp only [Spec.Win.apply, Spec.Win.mk.injEq, true_and, and_true] <;>
    first
    | omega
    | (cases hi <;> simp only [Spec.minOpt, Option.some.injEq] <;> omega)

theorem perm_foldl (c₁ c₂ : List Spec.VOp) (h : c₁.Perm c₂) :
    ∀ w : Spec.Win, c₁.foldl Spec.Win.apply w = c₂.foldl Spec.Win.apply w := by
  induction h with
  | nil => intro w; rfl
  | cons x _ ih => intro w; simp only [List.foldl_cons]; exact ih _
  | swap x y l => intro w; simp only [List.foldl_cons]; rw [win_comm]
  | trans _ _ ih1 ih2 => intro w; rw [ih1, ih2]

theorem fin_fnumWithSpec (sp : VSpec) (ex : Int) (r : VSpec × Bool) :
    (fnumWithSpec sp ex r).assertsFiniteSeq = true := by
  unfold fnumWithSpec
  split
  · rfl
  · split <;> rfl

theorem fin_fnum (s : VSpec) (e : Int) : (Val3.fnum s e).assertsFiniteSeq = true := rfl
theorem fin_mws (s : VSpec) (e : Int) : (Val3.mws s e).assertsFiniteSeq = true := rfl
theorem fin_opqN (s : VSpec) (e : Int) : (Val3.opqN s e).assertsFiniteSeq = false := rfl
theorem fin_opqS (s : VSpec) (e : Int) : (Val3.opqS s e).assertsFiniteSeq = false := rfl

theorem finite_step (v v' : Val3) (op : ViewOp) (h : v.apply op = some (.ok v')) :
    v'.assertsFiniteSeq = Spec.boundedStep v.assertsFiniteSeq (toSpecOp op) := by
  cases v <;> cases op <;> simp only [Val3.apply] at h <;> (try split at h) <;> (try cases h) <;>
    simp [toSpecOp, Spec.boundedStep, fin_fnumWithSpec, fin_fnum, fin_mws, fin_opqN, fin_opqS]

theorem finite_chain : ∀ (chain : List ViewOp) (v v' : Val3), applyChain3 v chain = some v' →
    v'.assertsFiniteSeq = Spec.boundedByConstruction v.assertsFiniteSeq (chain.map toSpecOp)
  | [], v, v', h => by
    simp only [applyChain3, Option.some.injEq] at h
    subst h; rfl
  | op :: rest, v, v', h => by
    unfold applyChain3 at h
    cases ha : v.apply op with
    | none => rw [ha] at h; cases h
    | some r =>
      cases r with
      | error e => rw [ha] at h; cases h
      | ok v1 =>
        rw [ha] at h
        simp only at h
        rw [finite_chain rest v1 v' h, finite_step v v1 op ha]
        simp only [Spec.boundedByConstruction, List.map_cons, List.foldl_cons]

theorem bounded_withStart (starts : List Int) (b : Bool) :
    Spec.boundedByConstruction b ((starts.map ViewOp.withStart).map toSpecOp) = b := by
  unfold Spec.boundedByConstruction
  induction starts with
  | nil => rfl
  | cons s rest ih => simpa only [List.map_cons, List.foldl_cons, toSpecOp, Spec.boundedStep] using ih

theorem finNum_imp_finSeq (v : Val3) : v.assertsFiniteNum = true → v.assertsFiniteSeq = true := by
  cases v <;> simp [Val3.assertsFiniteNum, Val3.assertsFiniteSeq]

end ViewL
open ViewL

/-- C07 (v3): the forward traversal of any view obtained by any chain is exactly the window
`max(0, starts) ≤ p < min(|D|, ends)`; C04: whatever the memoizer's state `m.maxLength`
(= whatever was read before) -/
theorem forward_chain3 (c : MemoCfg) (m : Memo) (b v : Val3) (chain : List ViewOp) (take : Nat)
    (hb : IsBase3 b) (hv : applyChain3 b chain = some v)
    (hfit : Fits c m.src (Spec.winOf (chain.map toSpecOp)) take) :
    ∃ m', v.forward c m take
        = .ok (m', Spec.windowList m.src.len m.src.digit (Spec.winOf (chain.map toSpecOp)) take)
      ∧ m'.src = m.src :=
  forward_of_rep c m v _ take (chain3 chain b v {} (base3 b hb) hv) hfit

/-- C07 (v3): the backward traversal is the exact reverse of the complete forward listing -/
theorem backward_chain3 (c : MemoCfg) (m : Memo) (b v : Val3) (chain : List ViewOp) (take n : Nat)
    (hb : IsBase3 b) (hv : applyChain3 b chain = some v)
    (hn : Spec.windowSize m.src.len (Spec.winOf (chain.map toSpecOp)) = some n)
    (hfit : Fits c m.src (Spec.winOf (chain.map toSpecOp)) n) :
    (v.backward c m take).2
      = ((Spec.windowList m.src.len m.src.digit (Spec.winOf (chain.map toSpecOp)) n).reverse).take take :=
  backward_of_rep c m v _ take n (chain3 chain b v {} (base3 b hb) hv) hn hfit

/-- C04: `At(p)` on a Number reached by a chain of WithSignificant calls (limit `hi`) reports the
digit iff `0 ≤ p < min(|D|, hi)`, else −1 — in any memoizer state -/
def underLimit (sp : VSpec) (p : Int) : Bool :=
  match sp with
  | .limited l => decide (p < l)
  | _ => true

theorem at_spec (c : MemoCfg) (m : Memo) (sp : VSpec) (p : Int) (hc : 0 < c.chunk)
    (hfit : match m.src.len with
      | some L => L < c.chunk * c.maxChunks
      | none => p < c.chunk * c.maxChunks) (hsp : sp ≠ .nil) :
    (specAt c m sp p).2 =
      (if 0 ≤ p ∧ m.src.has p.toNat = true ∧ underLimit sp p = true
       then (m.src.digit p.toNat : Int) else -1) := by
  have hcap : 0 ≤ p → Cap c m.src p.toNat := by
    intro hp
    unfold Cap
    cases hl : m.src.len with
    | none =>
      rw [hl] at hfit
      simp only at hfit ⊢
      rw [← Int.natCast_mul] at hfit
      omega
    | some L => rw [hl] at hfit; exact hfit
  unfold specAt
  cases sp with
  | nil => exact absurd rfl hsp
  | memo =>
    simp only [underLimit, and_true]
    exact at_memo c m p hc hcap
  | limited l =>
    have hu : underLimit (.limited l) p = decide (p < l) := rfl
    rw [hu]
    simp only
    by_cases hpl : p ≥ l
    · rw [if_pos hpl, if_neg]
      simp only [decide_eq_true_eq]; omega
    · rw [if_neg hpl, at_memo c m p hc hcap]
      have : p < l := by omega
      simp [this]


/-- C04: a live pull iterator delivers consecutive positions whatever happens to the memoizer
between its calls (other readers, other iterators): `ItOk` is all it relies on. -/
def ItOk (src : Src) (it : PullIt) : Prop :=
  it.initialized = true →
    (it.ok = decide (it.index < it.snap)) ∧ (it.ok = true → src.has (it.snap - 1) = true) ∧
    (it.ok = false → src.has it.index = false)

namespace ViewL


theorem pull3_init_eq (c : MemoCfg) (m : Memo) (it : PullIt) (hinit : it.initialized = false) :
    m.pull3 c it = (m.wait c it.index).1.pull3 c
      { it with initialized := true, snap := (m.wait c it.index).2.1, ok := (m.wait c it.index).2.2 } := by
  unfold Memo.pull3
  simp only [hinit, Bool.not_false, if_true, Bool.not_true, Bool.false_eq_true, if_false]

theorem itOk_of_snapOk (src : Src) (it : PullIt) (hs : SnapOk src it.index it.snap it.ok) :
    ItOk src it := by
  intro _
  refine ⟨hs.ok_eq, ?_, ?_⟩
  · intro hok
    have h1 := hs.ok_eq; rw [hok] at h1
    have h1 : it.index < it.snap := by simpa using h1.symm
    exact (has_iff _ _).2 fun L hL => by have := hs.below hok L hL; omega
  · intro hok
    exact (has_false_iff _ _).2 (hs.ended hok)

theorem snapOk_of_itOk (src : Src) (it : PullIt) (h : ItOk src it) (hinit : it.initialized = true) :
    SnapOk src it.index it.snap it.ok := by
  obtain ⟨h1, h2, h3⟩ := h hinit
  refine ⟨h1, ?_, ?_⟩
  · intro hok L hL
    have := (has_iff _ _).1 (h2 hok) L hL
    rw [hok] at h1
    have h1 : it.index < it.snap := by simpa using h1.symm
    omega
  · intro hok
    exact (has_false_iff _ _).1 (h3 hok)

theorem pull3_core (c : MemoCfg) (hc : 0 < c.chunk) (src : Src) (m : Memo) (it : PullIt)
    (hm : m.src = src) (hinit : it.initialized = true) (hs : SnapOk src it.index it.snap it.ok)
    (hcap : Cap c src (it.index + 1)) :
    SnapOk src (m.pull3 c it).2.1.index (m.pull3 c it).2.1.snap (m.pull3 c it).2.1.ok ∧
    (m.pull3 c it).1.src = src ∧
    ((m.pull3 c it).2.2 = (if src.has it.index = true ∧ (it.index : Int) < it.limit
              then some (it.index, src.digit it.index) else none)) ∧
    ((m.pull3 c it).2.1.index = if (m.pull3 c it).2.2.isSome then it.index + 1 else it.index) ∧
    (m.pull3 c it).2.1.limit = it.limit := by
  have hhas := hs.has_eq
  unfold Memo.pull3
  simp only [hinit, Bool.not_true, Bool.false_eq_true, if_false]
  by_cases hstop : (!it.ok || decide ((it.index : Int) ≥ it.limit)) = true
  · simp only [hstop, if_true]
    refine ⟨hs, hm, ?_, by simp, trivial⟩
    simp only [Bool.or_eq_true, Bool.not_eq_true', decide_eq_true_eq] at hstop
    rw [if_neg]
    rw [hhas]
    rcases hstop with h | h
    · simp [h]
    · intro hh; omega
  · simp only [hstop]
    simp only [Bool.or_eq_true, Bool.not_eq_true', decide_eq_true_eq, not_or, Bool.not_eq_false] at hstop
    obtain ⟨hok, hlim⟩ := hstop
    have hidx : it.index < it.snap := by
      have := hs.ok_eq; rw [hok] at this; simpa using this.symm
    have hres : (if src.has it.index = true ∧ (it.index : Int) < it.limit
              then some (it.index, src.digit it.index) else none) = some (it.index, m.src.digit it.index) := by
      rw [if_pos ⟨by rw [hhas, hok], by omega⟩, hm]
    rw [hres]
    by_cases hsn : it.index + 1 = it.snap
    · simp only [hsn, if_true]
      rw [← hsn]
      obtain ⟨m', snap', ok', hw, hm', hs'⟩ := wait_snapOk c m (it.index + 1) hc (hm ▸ hcap)
      rw [hw]
      rw [hm] at hm' hs'
      exact ⟨hs', hm', rfl, by simp, rfl⟩
    · simp only [hsn, if_false]
      refine ⟨⟨?_, hs.below, ?_⟩, hm, rfl, by simp, rfl⟩
      · simp only [hok]; simp; omega
      · intro h; rw [hok] at h; cases h

end ViewL

theorem pull3_spec (c : MemoCfg) (m : Memo) (it : PullIt) (hc : 0 < c.chunk)
    (hfit : match m.src.len with
      | some L => L < c.chunk * c.maxChunks
      | none => it.index + 1 < c.chunk * c.maxChunks)
    (hit : ItOk m.src it) :
    let r := m.pull3 c it
    ItOk m.src r.2.1 ∧ r.1.src = m.src ∧
    (r.2.2 = (if m.src.has it.index = true ∧ (it.index : Int) < it.limit
              then some (it.index, m.src.digit it.index) else none)) ∧
    (r.2.1.index = if r.2.2.isSome then it.index + 1 else it.index) ∧ r.2.1.limit = it.limit := by
  have hcap1 : Cap c m.src (it.index + 1) := by
    unfold Cap
    cases hl : m.src.len with
    | none => rw [hl] at hfit; exact hfit
    | some L => rw [hl] at hfit; exact hfit
  have hcap0 : Cap c m.src it.index := by
    unfold Cap
    cases hl : m.src.len with
    | none => rw [hl] at hfit; simp only at hfit ⊢; omega
    | some L => rw [hl] at hfit; exact hfit
  intro r
  cases hinit : it.initialized with
  | true =>
    have := pull3_core c hc m.src m it rfl hinit (snapOk_of_itOk _ _ hit hinit) hcap1
    exact ⟨itOk_of_snapOk _ _ this.1, this.2⟩
  | false =>
    obtain ⟨m', snap', ok', hw, hm', hs'⟩ := wait_snapOk c m it.index hc hcap0
    have hr : r = m'.pull3 c { it with initialized := true, snap := snap', ok := ok' } := by
      show m.pull3 c it = _
      rw [pull3_init_eq c m it hinit, hw]
    rw [hr]
    have := pull3_core c hc m.src m' { it with initialized := true, snap := snap', ok := ok' }
      hm' rfl hs' hcap1
    exact ⟨itOk_of_snapOk _ _ this.1, this.2⟩


/-- C07 (v1/v2): pull traversal of a chain result -/
theorem forward_chain12 (c : MemoCfg) (m : Memo) (v : Val12) (chain : List ViewOp) (e : Int) (take : Nat)
    (hv : applyChain12 (.num .memo e) chain = some v)
    (hfit : Fits c m.src (Spec.winOf (chain.map toSpecOp)) (take + 1)) :
    (spec12Iterate c m v.spec v.start.toNat take).2
      = Spec.windowList m.src.len m.src.digit (Spec.winOf (chain.map toSpecOp)) take :=
  iterate_of_rep c m v _ take (chain12 chain _ v {} (⟨rfl, rfl⟩ : Rep12 (.num .memo e) {}) hv) hfit


/-- C07: the window depends only on the multiset of bounds, not on the order of the chain -/
theorem winOf_perm (c₁ c₂ : List Spec.VOp) (h : c₁.Perm c₂) : Spec.winOf c₁ = Spec.winOf c₂ := by
  unfold Spec.winOf
  exact perm_foldl c₁ c₂ h {}


/-- C07: WithSignificant keeps the exponent while a digit can remain and gives the zero number
(exponent 0) otherwise -/
theorem withSig_exponent (sp : VSpec) (e k : Int) (hk : 0 ≤ k) (hsp : sp ≠ .nil) :
    ∃ v, (Val3.opqN sp e).apply (.withSig k) = some (.ok v) ∧
      (Val3.fnum sp e).apply (.withSig k) = some (.ok v) ∧
      (0 < k → v.exponent = some e ∧ v.isZero = false) ∧
      (k = 0 → v = zero3) := by
  have hnk : ¬ k < 0 := by omega
  refine ⟨fnumWithSpec sp e (withLimit sp k), by simp only [Val3.apply, if_neg hnk],
    by simp only [Val3.apply, if_neg hnk], ?_, ?_⟩
  · intro hpos
    have hnle : ¬ k ≤ 0 := by omega
    unfold withLimit
    rw [if_neg hnle]
    cases sp with
    | nil => exact absurd rfl hsp
    | memo => simp [fnumWithSpec, Val3.exponent, Val3.isZero, Val3.spec]
    | limited l =>
      by_cases hge : k ≥ l
      · simp [fnumWithSpec, Val3.exponent, Val3.isZero, Val3.spec, hge]
      · simp [fnumWithSpec, Val3.exponent, Val3.isZero, Val3.spec, hge]
  · intro h0
    subst h0
    have : (sp == VSpec.nil) = false := by
      cases sp with
      | nil => exact absurd rfl hsp
      | memo => rfl
      | limited l => rfl
    simp [withLimit, fnumWithSpec, this]


set_option linter.unusedVariables false in
/-- C17: a value reached from a base constructor by any chain asserts to FiniteSequence iff it is
bounded by construction; `*FiniteNumber` implies FiniteSequence; Number values are exactly the
results of number-preserving chains -/
theorem finite_iff_bounded (b v : Val3) (chain : List ViewOp)
    (hb : ∃ sp e, b = .fnum sp e ∨ b = .opqN sp e) (hv : applyChain3 b chain = some v) :
    v.assertsFiniteSeq = Spec.boundedByConstruction b.assertsFiniteSeq (chain.map toSpecOp) ∧
    (v.assertsFiniteNum = true → v.assertsFiniteSeq = true) :=
  ⟨finite_chain chain b v hv, finNum_imp_finSeq v⟩


/-- C17 corollary: no chain of WithStart calls on an unbounded Number yields a finite type -/
theorem withStart_chain_not_finite (sp : VSpec) (e : Int) (starts : List Int) (v : Val3)
    (hv : applyChain3 (.opqN sp e) (starts.map .withStart) = some v) :
    v.assertsFiniteSeq = false ∧ v.assertsFiniteNum = false := by
  have h1 : v.assertsFiniteSeq = false := by
    rw [finite_chain _ _ v hv, bounded_withStart]; rfl
  refine ⟨h1, ?_⟩
  cases hn : v.assertsFiniteNum with
  | false => rfl
  | true => rw [finNum_imp_finSeq v hn] at h1; cases h1


end Sqroot.Proofs

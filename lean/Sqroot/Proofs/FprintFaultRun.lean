/-
C12: the early-exit run of `Fprint` (`fprintFault3`, Model/Fprint.lean), which threads the memoizer
through exactly the requests the code makes, WRITES what the plain run `fprint3` / `printRun`
writes — so every theorem about `printRun` under an arbitrary writer (clean prefix, exact count,
error iff incomplete, termination) speaks about `fprintFault3` as well.

No hypothesis on the memoizer state is needed (none was added): as long as the printer can consume,
the early-exit run hands the memoizer state of the FULL traversal (`mFull`) to the next range — the
very state the plain run threads — so the feeds coincide literally; the state only differs (`mj`)
after the printer has latched its error, and from then on neither run changes the printer
(`rangeFault3` returns at once, `Printer.feed` on a printer that cannot consume is the identity).
-/
import Sqroot.Model.Fprint
import Sqroot.Model.EndToEnd
import Sqroot.Proofs.FprintFault
import Sqroot.Proofs.Fprint
namespace Sqroot.Proofs
open Sqroot.Model

namespace FR

/-- feeding a printer that cannot consume returns it unchanged -/
theorem feed_dead (pr : Printer) (xs : List (Nat × Nat)) (hd : pr.raw.canConsume = false) :
    pr.feed xs = .ok pr := by
  cases xs with
  | nil => rfl
  | cons x rest =>
    obtain ⟨p, d⟩ := x
    unfold Printer.feed
    rw [if_pos (by simp [hd])]

/-- folding feeds over a printer that cannot consume returns it unchanged -/
theorem foldlM_feed_dead (pr : Printer) (hd : pr.raw.canConsume = false) :
    ∀ feeds : List (List (Nat × Nat)),
      feeds.foldlM (fun pr f => Printer.feed pr f) pr = .ok pr := by
  intro feeds
  induction feeds with
  | nil => rfl
  | cons f fs ih =>
    rw [List.foldlM_cons, feed_dead pr f hd]
    exact ih

/-- the early-exit run leaves a printer that cannot consume unchanged -/
theorem ranges_dead (c : MemoCfg) (m : Memo) (pr : Printer) (v : Val3) (rs : List PRange)
    (hd : pr.raw.canConsume = false) (m' : Memo) (pr' : Printer)
    (h : rangesFault3 c m pr v rs = some (.ok (m', pr'))) : pr' = pr := by
  have herr : pr.raw.err = true := by simpa [RawPrinter.canConsume] using hd
  have := ranges_after_error c m pr v rs herr (m', pr') h
  simp only [Prod.mk.injEq] at this
  exact this.2

/-- the ranges, generalised over the printer and the memoizer state: the printer the early-exit run
ends with is the fold of `Printer.feed` over the feeds of the plain run -/
theorem ranges_fold (c : MemoCfg) (v : Val3) :
    ∀ (rs : List PRange) (m : Memo) (pr : Printer) (m' : Memo) (prF : Printer) (mm : Memo)
      (feeds : List (List (Nat × Nat))),
      rangesFault3 c m pr v rs = some (.ok (m', prF)) →
      fprintFeeds3 c m v rs = some (mm, feeds) →
      feeds.foldlM (fun pr f => Printer.feed pr f) pr = .ok prF := by
  intro rs
  induction rs with
  | nil =>
    intro m pr m' prF mm feeds h h0
    simp only [rangesFault3, Option.some.injEq, Except.ok.injEq, Prod.mk.injEq] at h
    simp only [fprintFeeds3, Option.some.injEq, Prod.mk.injEq] at h0
    rw [← h0.2, ← h.2]
    rfl
  | cons r rs ih =>
    intro m pr m' prF mm feeds h h0
    unfold fprintFeeds3 at h0
    split at h0
    · cases h0
    · rename_i mA f hA
      split at h0
      · cases h0
      · rename_i mB fs hB
        simp only [Option.some.injEq, Prod.mk.injEq] at h0
        obtain ⟨-, rfl⟩ := h0
        unfold rangesFault3 at h
        split at h
        · cases h
        · cases h
        · rename_i m1 pr1 h1
          rw [List.foldlM_cons]
          unfold rangeFeed3 at hA
          unfold rangeFault3 at h1
          split at h1
          · rename_i v1 hv1
            rw [hv1] at hA
            simp only at hA
            split at h1
            · rename_i v2 hv2
              rw [hv2] at hA
              simp only at hA
              by_cases hcan : pr.raw.canConsume = true
              · rw [if_neg (by simp [hcan])] at h1
                split at hA
                · rename_i res hfw
                  simp only [Option.some.injEq] at hA
                  subst hA
                  rw [hfw] at h1
                  simp only at h1
                  split at h1
                  · cases h1
                  · rename_i pr2 hfeed
                    rw [hfeed]
                    split at h1
                    · simp only [Option.some.injEq, Except.ok.injEq, Prod.mk.injEq] at h1
                      obtain ⟨rfl, rfl⟩ := h1
                      exact ih _ _ _ _ _ _ h hB
                    · rename_i hdead
                      have hdead : pr2.raw.canConsume = false := by simpa using hdead
                      split at h1
                      · cases h1
                      · simp only [Option.some.injEq, Except.ok.injEq, Prod.mk.injEq] at h1
                        obtain ⟨rfl, rfl⟩ := h1
                        have := ranges_dead c _ _ v rs hdead m' prF h
                        rw [this]
                        exact foldlM_feed_dead _ hdead fs
                · cases hA
              · have hdead : pr.raw.canConsume = false := by simpa using hcan
                rw [if_pos (by simp [hdead])] at h1
                simp only [Option.some.injEq, Except.ok.injEq, Prod.mk.injEq] at h1
                obtain ⟨rfl, rfl⟩ := h1
                have := ranges_dead c _ _ v rs hdead m' prF h
                rw [this, feed_dead _ f hdead]
                exact foldlM_feed_dead _ hdead fs
            · cases h1
          · cases h1

end FR

/-- E. whenever both runs are defined, the early-exit run returns the PrintResult of the plain run
(same accepted bytes, count, error flag, digits pulled, writer calls). -/
theorem fprintFault3_result_eq (c : MemoCfg) (m : Memo) (sink : Sink) (s : PSettings) (v : Val3)
    (ranges : List PRange) (r : PrintResult) (m' : Memo) (r0 : PrintResult)
    (h : fprintFault3 c m sink s v ranges = some (.ok (r, m')))
    (h0 : fprint3 c m sink s v ranges = some (.ok r0)) :
    r = r0 := by
  unfold fprint3 at h0
  split at h0
  · cases h0
  · rename_i mm feeds hfeeds
    unfold fprintFault3 at h
    split at h
    · cases h
    · cases h
    · rename_i mF prF hF
      have hfold := FR.ranges_fold c v ranges m _ mF prF mm feeds hF hfeeds
      simp only [Option.some.injEq] at h0
      unfold printRun at h0
      rw [hfold] at h0
      split at h
      · cases h
      · rename_i raw hraw
        simp only [Option.some.injEq, Except.ok.injEq, Prod.mk.injEq] at h
        simp only [bind, Except.bind, hraw, pure, Except.pure, Except.ok.injEq] at h0
        rw [← h.1, ← h0]

/-- F. the same for `Fwrite` -/
theorem fwriteFault3_result_eq (c : MemoCfg) (m : Memo) (sink : Sink) (s : PSettings) (v : Val3)
    (size : Nat) (r : PrintResult) (m' : Memo) (r0 : PrintResult)
    (h : fwriteFault3 c m sink s v size = some (.ok (r, m')))
    (h0 : fwrite3 c m sink s v size = some (.ok r0)) :
    r = r0 := by
  unfold fwrite3 at h0
  unfold fwriteFault3 at h
  split at h0
  · cases h0
  · rw [if_neg (by assumption)] at h
    simp only at h h0
    split at h0
    · cases h0
    · rename_i mA xs hfw
      rw [hfw] at h
      simp only at h
      simp only [Option.some.injEq] at h0
      unfold printRun at h0
      simp only [List.foldlM_cons, List.foldlM_nil, bind, Except.bind, pure, Except.pure] at h0
      generalize hg : Printer.feed _ xs = fr at h0
      split at h
      · cases h
      · rename_i pr' hfeed
        have hfr : fr = .ok pr' := hg.symm.trans hfeed
        subst hfr
        simp only at h0
        have fin : ∀ mX : Memo,
            (match pr'.raw.finish with
              | .error p => some (Except.error p)
              | .ok raw => some (.ok ((⟨raw.w.sink.accepted, raw.w.sink.bytesWritten, raw.err,
                  pr'.pulled, raw.w.sink.calls⟩ : PrintResult), mX))) = some (.ok (r, m')) →
            r = r0 := by
          intro mX hX
          split at hX
          · cases hX
          · rename_i raw hraw
            simp only [Option.some.injEq, Except.ok.injEq, Prod.mk.injEq] at hX
            rw [hraw] at h0
            simp only [Except.ok.injEq] at h0
            rw [← hX.1, ← h0]
        split at h
        · exact fin _ h
        · split at h
          · cases h
          · exact fin _ h

end Sqroot.Proofs

/-
The generated pure int functions (G3) use Lean's unbounded `Int` where the Go code uses `int`.
The extractor also emits, for each of them, a companion `…Ovf : … → Bool` that is true iff some
+, -, *, unary -, / on the executed path leaves the int64 range (or divides by zero). Here: the
companions are false on the inputs the code can see, so the unbounded reading is the Go reading.
Core only.
-/
import Sqroot.Gen.V1
import Sqroot.Gen.V2
import Sqroot.Gen.V3
namespace Sqroot.Proofs

def I64 (x : Int) : Prop := -9223372036854775808 ≤ x ∧ x ≤ 9223372036854775807

theorem outI64_false_of {x : Int} (h : I64 x) : Sqroot.outI64 x = false := by
  unfold Sqroot.outI64 I64 at *
  simp only [Bool.or_eq_false_iff, decide_eq_false_iff_not]
  omega

/-- `newFormatSpec`: the only arithmetic is `precision + exponent` (verbs f, F); it fits whenever
the intended digit count does (`precision` ≥ 0 as delivered by fmt, default 6) -/
theorem newFormatSpec_fits_v3 (precision exponent verb : Int) (ok : Bool)
    (hp : 0 ≤ precision ∧ I64 precision) (he : I64 exponent) (hs : I64 (precision + exponent) ∧ I64 (6 + exponent)) :
    Gen.V3.newFormatSpecOvf precision ok verb exponent = false := by
  have a : Sqroot.outI64 (-3) = false := by decide
  have a4 : Sqroot.outI64 (-4) = false := by decide
  have a6 : Sqroot.outI64 6 = false := by decide
  have a7 : Sqroot.outI64 7 = false := by decide
  have h1 := outI64_false_of hs.1
  have h2 := outI64_false_of hs.2
  unfold Gen.V3.newFormatSpecOvf Gen.V3.formatSpecForGOvf Gen.V3.bigExponentOvf
  cases ok <;> simp [a, a4, a6, a7, h1, h2]

theorem newFormatSpec_fits_v1 (precision exponent verb : Int) (ok : Bool)
    (hp : 0 ≤ precision ∧ I64 precision) (he : I64 exponent) (hs : I64 (precision + exponent) ∧ I64 (6 + exponent)) :
    Gen.V1.newFormatSpecOvf precision ok verb exponent = false := by
  have a : Sqroot.outI64 (-3) = false := by decide
  have a4 : Sqroot.outI64 (-4) = false := by decide
  have a6 : Sqroot.outI64 6 = false := by decide
  have a7 : Sqroot.outI64 7 = false := by decide
  have h1 := outI64_false_of hs.1
  have h2 := outI64_false_of hs.2
  unfold Gen.V1.newFormatSpecOvf Gen.V1.bigExponentOvf
  cases ok <;> simp [a, a4, a6, a7, h1, h2]

theorem newFormatSpec_fits_v2 (precision exponent verb : Int) (ok : Bool)
    (hp : 0 ≤ precision ∧ I64 precision) (he : I64 exponent) (hs : I64 (precision + exponent) ∧ I64 (6 + exponent)) :
    Gen.V2.newFormatSpecOvf precision ok verb exponent = false := by
  have a : Sqroot.outI64 (-3) = false := by decide
  have a4 : Sqroot.outI64 (-4) = false := by decide
  have a6 : Sqroot.outI64 6 = false := by decide
  have a7 : Sqroot.outI64 7 = false := by decide
  have h1 := outI64_false_of hs.1
  have h2 := outI64_false_of hs.2
  unfold Gen.V2.newFormatSpecOvf Gen.V2.bigExponentOvf
  cases ok <;> simp [a, a4, a6, a7, h1, h2]

end Sqroot.Proofs

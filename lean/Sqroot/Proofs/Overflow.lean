/-
The generated pure int functions (G3) use Lean's unbounded `Int` where the Go code uses `int`.
The extractor also emits, for each of them, a companion `…Ovf : … → Bool` that is true iff some
+, -, *, unary -, / on the executed path leaves the int64 range (or divides by zero). Here: the
companions are false on the inputs the code can see, so the unbounded reading is the Go reading.
Core only.
-/
import Sqroot.Gen.V1
import Sqroot.Gen.V2
import Sqroot.Gen.V3
namespace Sqroot.Proofs

def I64 (x : Int) : Prop := -9223372036854775808 ≤ x ∧ x ≤ 9223372036854775807

theorem outI64_false_of {x : Int} (h : I64 x) : Sqroot.outI64 x = false := by
  unfold Sqroot.outI64 I64 at *
  simp only [Bool.or_eq_false_iff, decide_eq_false_iff_not]
  omega

theorem tdiv_bounds {a b : Int} (ha : 0 ≤ a) (hb : 0 < b) :
    0 ≤ Int.tdiv a b ∧ Int.tdiv a b ≤ a ∧ 0 ≤ Int.tdiv a b * b ∧ Int.tdiv a b * b ≤ a := by
  have h1 : Int.tdiv a b = a / b := Int.tdiv_eq_ediv_of_nonneg ha
  rw [h1]
  have h2 : 0 ≤ a / b := Int.ediv_nonneg ha (Int.le_of_lt hb)
  have h3 : a / b * b ≤ a := Int.ediv_mul_le a (Int.ne_of_gt hb)
  have h4 : a / b ≤ a := Int.ediv_le_self b ha
  exact ⟨h2, h4, Int.mul_nonneg h2 (Int.le_of_lt hb), h3⟩

/-- shape shared by the three versions' `digitCountWidthOvf` -/
theorem width_ovf_false (row maxDigits : Int) (sc : Bool) (hr : I64 row) (hm : 0 ≤ maxDigits ∧ I64 maxDigits) :
    (if ((!sc) || (decide (row ≤ 0))) then false else (if (decide (maxDigits ≤ row)) then false else
      ((Sqroot.outI64 (maxDigits - 1)) || ((row == 0) || ((Sqroot.outI64 (Int.tdiv (maxDigits - 1) row)) ||
        (Sqroot.outI64 ((Int.tdiv (maxDigits - 1) row) * row))))))) = false := by
  by_cases h1 : ((!sc) || (decide (row ≤ 0))) = true
  · simp [h1]
  · simp only [h1]
    by_cases h2 : decide (maxDigits ≤ row) = true
    · simp [h2]
    · simp only [h2]
      have hrow : 0 < row := by
        simp only [Bool.or_eq_true, Bool.not_eq_true', decide_eq_true_eq, not_or] at h1
        omega
      have hgt : row < maxDigits := by
        simp only [decide_eq_true_eq] at h2
        omega
      obtain ⟨b1, b2, b3, b4⟩ := tdiv_bounds (a := maxDigits - 1) (b := row) (by omega) hrow
      unfold I64 at *
      have e1 : Sqroot.outI64 (maxDigits - 1) = false := outI64_false_of (by unfold I64; omega)
      have e2 : Sqroot.outI64 (Int.tdiv (maxDigits - 1) row) = false := outI64_false_of (by unfold I64; omega)
      have e3 : Sqroot.outI64 (Int.tdiv (maxDigits - 1) row * row) = false := outI64_false_of (by unfold I64; omega)
      have e4 : (row == 0) = false := by simp; omega
      simp [e1, e2, e3, e4]

theorem digitCountWidth_fits_v1 (row maxDigits : Int) (sc : Bool) (hr : I64 row) (hm : 0 ≤ maxDigits ∧ I64 maxDigits) :
    Gen.V1.digitCountWidthOvf row sc maxDigits = false := width_ovf_false row maxDigits sc hr hm
theorem digitCountWidth_fits_v2 (row maxDigits : Int) (sc : Bool) (hr : I64 row) (hm : 0 ≤ maxDigits ∧ I64 maxDigits) :
    Gen.V2.digitCountWidthOvf row sc maxDigits = false := width_ovf_false row maxDigits sc hr hm
theorem digitCountWidth_fits_v3 (row maxDigits : Int) (sc : Bool) (hr : I64 row) (hm : 0 ≤ maxDigits ∧ I64 maxDigits) :
    Gen.V3.digitCountWidthOvf row sc maxDigits = false := width_ovf_false row maxDigits sc hr hm

/-- `newFormatSpec`: the only arithmetic is `precision + exponent` (verbs f, F); it fits whenever
the intended digit count does (`precision` ≥ 0 as delivered by fmt, default 6) -/
theorem newFormatSpec_fits_v3 (precision exponent verb : Int) (ok : Bool)
    (hp : 0 ≤ precision ∧ I64 precision) (he : I64 exponent) (hs : I64 (precision + exponent) ∧ I64 (6 + exponent)) :
    Gen.V3.newFormatSpecOvf precision ok verb exponent = false := by
  have a : Sqroot.outI64 (-3) = false := by decide
  have h1 := outI64_false_of hs.1
  have h2 := outI64_false_of hs.2
  unfold Gen.V3.newFormatSpecOvf Gen.V3.formatSpecForGOvf Gen.V3.bigExponentOvf
  cases ok <;> simp [a, h1, h2]

theorem newFormatSpec_fits_v1 (precision exponent verb : Int) (ok : Bool)
    (hp : 0 ≤ precision ∧ I64 precision) (he : I64 exponent) (hs : I64 (precision + exponent) ∧ I64 (6 + exponent)) :
    Gen.V1.newFormatSpecOvf precision ok verb exponent = false := by
  have a : Sqroot.outI64 (-3) = false := by decide
  have h1 := outI64_false_of hs.1
  have h2 := outI64_false_of hs.2
  unfold Gen.V1.newFormatSpecOvf Gen.V1.bigExponentOvf
  cases ok <;> simp [a, h1, h2]

theorem newFormatSpec_fits_v2 (precision exponent verb : Int) (ok : Bool)
    (hp : 0 ≤ precision ∧ I64 precision) (he : I64 exponent) (hs : I64 (precision + exponent) ∧ I64 (6 + exponent)) :
    Gen.V2.newFormatSpecOvf precision ok verb exponent = false := by
  have a : Sqroot.outI64 (-3) = false := by decide
  have h1 := outI64_false_of hs.1
  have h2 := outI64_false_of hs.2
  unfold Gen.V2.newFormatSpecOvf Gen.V2.bigExponentOvf
  cases ok <;> simp [a, h1, h2]

end Sqroot.Proofs

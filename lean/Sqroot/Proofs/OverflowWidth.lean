/-
Overflow companions of the regenerated label-width function `digitCountWidth` (kept apart from the
format-spec companions so that a rewrite of the printer's arithmetic cannot break the checks of
the formatting properties).
-/
import Sqroot.Proofs.Overflow
namespace Sqroot.Proofs

theorem tdiv_bounds {a b : Int} (ha : 0 ≤ a) (hb : 0 < b) :
    0 ≤ Int.tdiv a b ∧ Int.tdiv a b ≤ a ∧ 0 ≤ Int.tdiv a b * b ∧ Int.tdiv a b * b ≤ a := by
  have h1 : Int.tdiv a b = a / b := Int.tdiv_eq_ediv_of_nonneg ha
  rw [h1]
  have h2 : 0 ≤ a / b := Int.ediv_nonneg ha (Int.le_of_lt hb)
  have h3 : a / b * b ≤ a := Int.ediv_mul_le a (Int.ne_of_gt hb)
  have h4 : a / b ≤ a := Int.ediv_le_self b ha
  exact ⟨h2, h4, Int.mul_nonneg h2 (Int.le_of_lt hb), h3⟩

/-- shape shared by the three versions' `digitCountWidthOvf` -/
theorem width_ovf_false (row maxDigits : Int) (sc : Bool) (hr : I64 row) (hm : 0 ≤ maxDigits ∧ I64 maxDigits) :
    (if ((!sc) || (decide (row ≤ 0))) then false else (if (decide (maxDigits ≤ row)) then false else
      ((Sqroot.outI64 (maxDigits - 1)) || ((row == 0) || ((Sqroot.outI64 (Int.tdiv (maxDigits - 1) row)) ||
        (Sqroot.outI64 ((Int.tdiv (maxDigits - 1) row) * row))))))) = false := by
  by_cases h1 : ((!sc) || (decide (row ≤ 0))) = true
  · simp [h1]
  · simp only [h1]
    by_cases h2 : decide (maxDigits ≤ row) = true
    · simp [h2]
    · simp only [h2]
      have hrow : 0 < row := by
        simp only [Bool.or_eq_true, Bool.not_eq_true', decide_eq_true_eq, not_or] at h1
        omega
      have hgt : row < maxDigits := by
        simp only [decide_eq_true_eq] at h2
        omega
      obtain ⟨b1, b2, b3, b4⟩ := tdiv_bounds (a := maxDigits - 1) (b := row) (by omega) hrow
      unfold I64 at *
      have e1 : Sqroot.outI64 (maxDigits - 1) = false := outI64_false_of (by unfold I64; omega)
      have e2 : Sqroot.outI64 (Int.tdiv (maxDigits - 1) row) = false := outI64_false_of (by unfold I64; omega)
      have e3 : Sqroot.outI64 (Int.tdiv (maxDigits - 1) row * row) = false := outI64_false_of (by unfold I64; omega)
      have e4 : (row == 0) = false := by simp; omega
      simp [e1, e2, e3, e4]

theorem sub_tmod_eq' (a b : Int) (ha : 0 ≤ a) (hb : 0 < b) : a - Int.tmod a b = Int.tdiv a b * b := by
  rw [Int.tdiv_eq_ediv_of_nonneg ha, Int.tmod_eq_emod_of_nonneg ha]
  have := Int.emod_add_mul_ediv a b
  rw [Int.mul_comm] at this
  omega

/-- the shape the three versions share today (first alternative), or — after a rewrite of the
label-width arithmetic (merged guards, `(m-1) - (m-1)%r`) — case analysis on the guards and bounds
on every subterm (second alternative) -/
theorem digitCountWidth_fits_v1 (row maxDigits : Int) (sc : Bool) (hr : I64 row) (hm : 0 ≤ maxDigits ∧ I64 maxDigits) :
    Gen.V1.digitCountWidthOvf row sc maxDigits = false := by
  unfold Gen.V1.digitCountWidthOvf
  first
  | exact width_ovf_false row maxDigits sc hr hm
  | (by_cases h1 : sc = true
     · by_cases h2 : row ≤ 0
       · simp [h1, h2]
       · by_cases h3 : maxDigits ≤ row
         · simp [h1, h2, h3]
         · obtain ⟨b1, b2, b3, b4⟩ := tdiv_bounds (a := maxDigits - 1) (b := row) (by omega) (by omega)
           have t0 := sub_tmod_eq' (maxDigits - 1) row (by omega) (by omega)
           unfold I64 at *
           have e1 : Sqroot.outI64 (maxDigits - 1) = false := outI64_false_of (by unfold I64; omega)
           have e2 : Sqroot.outI64 (Int.tdiv (maxDigits - 1) row) = false := outI64_false_of (by unfold I64; omega)
           have e3 : Sqroot.outI64 (Int.tdiv (maxDigits - 1) row * row) = false := outI64_false_of (by unfold I64; omega)
           have e5 : Sqroot.outI64 ((maxDigits - 1) - Int.tmod (maxDigits - 1) row) = false := outI64_false_of (by unfold I64; omega)
           have e6 : Sqroot.outI64 (Int.tmod (maxDigits - 1) row) = false := outI64_false_of (by unfold I64; omega)
           have e4 : (row == 0) = false := by simp; omega
           simp [h1, h2, h3, e1, e2, e3, e4, e5, e6]
     · simp [h1])

theorem digitCountWidth_fits_v2 (row maxDigits : Int) (sc : Bool) (hr : I64 row) (hm : 0 ≤ maxDigits ∧ I64 maxDigits) :
    Gen.V2.digitCountWidthOvf row sc maxDigits = false := by
  unfold Gen.V2.digitCountWidthOvf
  first
  | exact width_ovf_false row maxDigits sc hr hm
  | (by_cases h1 : sc = true
     · by_cases h2 : row ≤ 0
       · simp [h1, h2]
       · by_cases h3 : maxDigits ≤ row
         · simp [h1, h2, h3]
         · obtain ⟨b1, b2, b3, b4⟩ := tdiv_bounds (a := maxDigits - 1) (b := row) (by omega) (by omega)
           have t0 := sub_tmod_eq' (maxDigits - 1) row (by omega) (by omega)
           unfold I64 at *
           have e1 : Sqroot.outI64 (maxDigits - 1) = false := outI64_false_of (by unfold I64; omega)
           have e2 : Sqroot.outI64 (Int.tdiv (maxDigits - 1) row) = false := outI64_false_of (by unfold I64; omega)
           have e3 : Sqroot.outI64 (Int.tdiv (maxDigits - 1) row * row) = false := outI64_false_of (by unfold I64; omega)
           have e5 : Sqroot.outI64 ((maxDigits - 1) - Int.tmod (maxDigits - 1) row) = false := outI64_false_of (by unfold I64; omega)
           have e6 : Sqroot.outI64 (Int.tmod (maxDigits - 1) row) = false := outI64_false_of (by unfold I64; omega)
           have e4 : (row == 0) = false := by simp; omega
           simp [h1, h2, h3, e1, e2, e3, e4, e5, e6]
     · simp [h1])

theorem digitCountWidth_fits_v3 (row maxDigits : Int) (sc : Bool) (hr : I64 row) (hm : 0 ≤ maxDigits ∧ I64 maxDigits) :
    Gen.V3.digitCountWidthOvf row sc maxDigits = false := by
  unfold Gen.V3.digitCountWidthOvf
  first
  | exact width_ovf_false row maxDigits sc hr hm
  | (by_cases h1 : sc = true
     · by_cases h2 : row ≤ 0
       · simp [h1, h2]
       · by_cases h3 : maxDigits ≤ row
         · simp [h1, h2, h3]
         · obtain ⟨b1, b2, b3, b4⟩ := tdiv_bounds (a := maxDigits - 1) (b := row) (by omega) (by omega)
           have t0 := sub_tmod_eq' (maxDigits - 1) row (by omega) (by omega)
           unfold I64 at *
           have e1 : Sqroot.outI64 (maxDigits - 1) = false := outI64_false_of (by unfold I64; omega)
           have e2 : Sqroot.outI64 (Int.tdiv (maxDigits - 1) row) = false := outI64_false_of (by unfold I64; omega)
           have e3 : Sqroot.outI64 (Int.tdiv (maxDigits - 1) row * row) = false := outI64_false_of (by unfold I64; omega)
           have e5 : Sqroot.outI64 ((maxDigits - 1) - Int.tmod (maxDigits - 1) row) = false := outI64_false_of (by unfold I64; omega)
           have e6 : Sqroot.outI64 (Int.tmod (maxDigits - 1) row) = false := outI64_false_of (by unfold I64; omega)
           have e4 : (row == 0) = false := by simp; omega
           simp [h1, h2, h3, e1, e2, e3, e4, e5, e6]
     · simp [h1])

end Sqroot.Proofs

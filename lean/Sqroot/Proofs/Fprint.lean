/-
C10 end to end (v3): Fprint on any view of any Number with any normalised Positions value prints
the canonical layout of exactly the requested positions that exist in the view.
Composition of the view theorem (C07), the Positions normal form (C11) and the printer theorem.
-/
import Sqroot.Model.Fprint
import Sqroot.Proofs.View
import Sqroot.Proofs.Print
import Sqroot.Proofs.Positions
namespace Sqroot.Proofs
open Sqroot.Model

/-- capacity side condition for all ranges at once: the sequence is finite and within capacity,
or every range ends within capacity -/
def FitsRanges (c : MemoCfg) (src : Src) (ranges : List PRange) : Prop :=
  0 < c.chunk ∧ ((c.chunk * c.maxChunks : Nat) : Int) ≤ maxInt ∧
  (match src.len with
   | some L => L < c.chunk * c.maxChunks
   | none => ∀ r ∈ ranges, r.stop + 1 < (c.chunk * c.maxChunks : Nat))

namespace FP
open ViewL

/-- capacity hypothesis for a scan bounded by `limit`: every `wait` it issues is at an index
`≤ limit`, whatever the consumer's `take` -/
def CapLim (c : MemoCfg) (src : Src) (limit : Int) : Prop :=
  match src.len with
  | some L => L < c.chunk * c.maxChunks
  | none => limit < ((c.chunk * c.maxChunks : Nat) : Int)

theorem scanLoop_lim (c : MemoCfg) (hc : 0 < c.chunk) (src : Src) (limit : Int)
    (hcap : CapLim c src limit) :
    ∀ (take : Nat) (m : Memo) (index snap : Nat) (ok : Bool) (acc : List (Nat × Nat)),
      m.src = src → SnapOk src index snap ok →
      (Memo.scanLoop c take m index limit snap ok acc).1.src = src ∧
      (Memo.scanLoop c take m index limit snap ok acc).2 =
        acc.reverse ++ (List.range' index (min take (ub src.len limit - index).toNat)).map
          (fun p => (p, src.digit p)) := by
  intro take
  induction take with
  | zero =>
    intro m index snap ok acc hm _
    simp [Memo.scanLoop, hm]
  | succ take ih =>
    intro m index snap ok acc hm hs
    unfold Memo.scanLoop
    by_cases hstop : (!ok || decide ((index : Int) ≥ limit)) = true
    · rw [if_pos hstop]
      refine ⟨hm, ?_⟩
      have : min (take + 1) (ub src.len limit - index).toNat = 0 := by
        simp only [Bool.or_eq_true, Bool.not_eq_true', decide_eq_true_eq] at hstop
        rcases hstop with h | h
        · obtain ⟨L, hL, hle⟩ := hs.ended h
          simp only [ub, hL]; omega
        · cases hl : src.len <;> simp only [ub] <;> omega
      rw [this]; simp
    · rw [if_neg hstop]
      simp only [Bool.or_eq_true, Bool.not_eq_true', decide_eq_true_eq, not_or, Bool.not_eq_false] at hstop
      obtain ⟨hok, hlim⟩ := hstop
      have hidx : index < snap := by
        have := hs.ok_eq; rw [hok] at this; simpa using this.symm
      have hbelow := hs.below hok
      by_cases ht : take = 0
      · simp only [ht, if_true]
        refine ⟨hm, ?_⟩
        have : min (0 + 1) (ub src.len limit - index).toNat = 1 := by
          cases hl : src.len with
          | none => simp only [ub]; omega
          | some L => have := hbelow L hl; simp only [ub]; omega
        rw [this]; simp [hm]
      · simp only [ht, if_false]
        have hcnt : min (take + 1) (ub src.len limit - index).toNat
            = min take (ub src.len limit - ((index + 1 : Nat) : Int)).toNat + 1 := by
          cases hl : src.len with
          | none => simp only [ub]; omega
          | some L => have := hbelow L hl; simp only [ub]; omega
        rw [hcnt, List.range'_succ]
        by_cases hsn : index + 1 = snap
        · rw [if_pos hsn]
          have hcapw : Cap c m.src (index + 1) := by
            unfold CapLim at hcap; unfold Cap
            rw [hm]
            cases hl : src.len with
            | none => rw [hl] at hcap; simp only at hcap ⊢; omega
            | some L => rw [hl] at hcap; exact hcap
          obtain ⟨m', snap', ok', hw, hm', hs'⟩ := wait_snapOk c m (index + 1) hc hcapw
          rw [hw]
          simp only
          rw [hm] at hm' hs'
          have := ih m' (index + 1) snap' ok' ((index, m.src.digit index) :: acc) hm' hs'
          refine ⟨this.1, ?_⟩
          rw [this.2]
          simp [hm]
        · rw [if_neg hsn]
          have hs' : SnapOk src (index + 1) snap ok := by
            refine ⟨?_, hs.below, ?_⟩
            · rw [hok]; simp; omega
            · intro h; rw [hok] at h; cases h
          have := ih m (index + 1) snap ok ((index, m.src.digit index) :: acc) hm hs'
          refine ⟨this.1, ?_⟩
          rw [this.2]
          simp [hm]

theorem scan_lim (c : MemoCfg) (hc : 0 < c.chunk) (m : Memo) (index limit : Int) (take : Nat)
    (hidx : 0 ≤ index) (hcap0 : CapLim c m.src index) (hcap : CapLim c m.src limit) :
    ∃ m', m.scan c index limit take =
        .ok (m', (List.range' index.toNat (min take (ub m.src.len limit - index).toNat)).map
          (fun p => (p, m.src.digit p))) ∧ m'.src = m.src := by
  unfold Memo.scan
  rw [if_neg (by omega)]
  by_cases ht : take = 0
  · rw [if_pos ht]
    exact ⟨m, by simp [ht], rfl⟩
  · rw [if_neg ht]
    have hcapw : Cap c m.src index.toNat := by
      unfold CapLim at hcap0; unfold Cap
      cases hl : m.src.len with
      | none => rw [hl] at hcap0; simp only at hcap0 ⊢; omega
      | some L => rw [hl] at hcap0; exact hcap0
    obtain ⟨m', snap', ok', hw, hm', hs'⟩ := wait_snapOk c m index.toNat hc hcapw
    rw [hw]
    simp only
    have := scanLoop_lim c hc m.src limit hcap take m' index.toNat snap' ok' [] hm' hs'
    refine ⟨_, ?_, this.1⟩
    congr 1
    apply Prod.ext
    · rfl
    · simp only
      rw [this.2]
      have : ((index.toNat : Nat) : Int) = index := by omega
      rw [this]
      simp

/-- forward traversal of a value whose window has an upper bound `h`: on an infinite source it
only needs `h` within capacity, whatever the window's start and the consumer's `take` -/
theorem forward_bounded (c : MemoCfg) (m : Memo) (v : Val3) (lo h : Int) (take : Nat)
    (hrep : Rep3 v ⟨lo, some h⟩) (hc : 0 < c.chunk)
    (hmax : ((c.chunk * c.maxChunks : Nat) : Int) ≤ maxInt) (hcap : CapLim c m.src h) :
    ∃ m', v.forward c m take = .ok (m', Spec.windowList m.src.len m.src.digit ⟨lo, some h⟩ take)
      ∧ m'.src = m.src := by
  obtain ⟨hst, hsp⟩ := hrep
  simp only at hst hsp
  unfold Val3.forward specScan
  cases hspv : v.spec with
  | nil =>
    rw [hspv] at hsp
    obtain ⟨h', hh, hle⟩ := hsp
    refine ⟨m, ?_, rfl⟩
    simp only
    have : Spec.windowList m.src.len m.src.digit ⟨lo, some h⟩ take = [] := by
      unfold Spec.windowList Spec.upper
      simp only [Option.some.injEq] at hh
      subst hh
      cases hl : m.src.len with
      | none =>
        simp only
        have : min take (h - ((max lo 0).toNat : Int)).toNat = 0 := by omega
        rw [this]; simp
      | some L =>
        simp only
        have : min take (min h (L : Int) - ((max lo 0).toNat : Int)).toNat = 0 := by omega
        rw [this]; simp
    rw [this]
  | memo =>
    rw [hspv] at hsp
    cases hsp
  | limited l =>
    rw [hspv] at hsp
    obtain ⟨hh, hl0⟩ := hsp
    simp only [Option.some.injEq] at hh
    subst hh
    simp only
    have hc0 : CapLim c m.src (min v.start h) := by
      unfold CapLim at hcap ⊢
      cases hl : m.src.len with
      | none => rw [hl] at hcap; simp only at hcap ⊢; omega
      | some L => rw [hl] at hcap; exact hcap
    have hc1 : CapLim c m.src (min maxInt h) := by
      unfold CapLim at hcap ⊢
      cases hl : m.src.len with
      | none => rw [hl] at hcap; simp only at hcap ⊢; omega
      | some L => rw [hl] at hcap; exact hcap
    obtain ⟨m', hscan, hm'⟩ := scan_lim c hc m (min v.start h) (min maxInt h) take (by omega) hc0 hc1
    refine ⟨m', ?_, hm'⟩
    rw [hscan]
    congr 2
    unfold Spec.windowList Spec.upper
    simp only
    rw [hst]
    unfold CapLim at hcap
    by_cases hle : max lo 0 ≤ h
    · have : min (max lo 0) h = max lo 0 := by omega
      rw [this]
      congr 2
      cases hl : m.src.len with
      | none => rw [hl] at hcap; simp only [ub] at hcap ⊢; omega
      | some L => rw [hl] at hcap; simp only [ub] at hcap ⊢; omega
    · have h1 : min take (ub m.src.len (min maxInt h) - min (max lo 0) h).toNat = 0 := by
        cases hl : m.src.len <;> simp only [ub] <;> omega
      rw [h1]
      cases hl : m.src.len with
      | none =>
        simp only
        have : min take (h - ((max lo 0).toNat : Int)).toNat = 0 := by omega
        rw [this]; simp
      | some L =>
        simp only
        have : min take (min h (L : Int) - ((max lo 0).toNat : Int)).toNat = 0 := by omega
        rw [this]; simp

theorem apply_withStart (v : Val3) (s : Int) : ∃ v1, v.apply (.withStart s) = some (.ok v1) := by
  cases v <;> exact ⟨_, rfl⟩

theorem apply_withEnd (v : Val3) (e : Int) : ∃ v2, v.apply (.withEnd e) = some (.ok v2) := by
  cases v <;> exact ⟨_, rfl⟩

theorem minOpt_some (a : Option Int) (b : Int) : ∃ h, Spec.minOpt a b = some h ∧ h ≤ b := by
  cases a with
  | none => exact ⟨b, rfl, Int.le_refl _⟩
  | some x => exact ⟨min x b, rfl, by omega⟩

/-- one range: the feed is the part of the view's window inside the range -/
theorem rangeFeed3_spec (c : MemoCfg) (m : Memo) (v : Val3) (w : Spec.Win) (r : PRange)
    (hrep : Rep3 v w) (hc : 0 < c.chunk)
    (hmax : ((c.chunk * c.maxChunks : Nat) : Int) ≤ maxInt) (hcap : CapLim c m.src r.stop) :
    ∃ m', rangeFeed3 c m v r = some (m', Spec.windowList m.src.len m.src.digit
        { lo := max w.lo r.start, hi := Spec.minOpt w.hi r.stop } ((r.stop - r.start).toNat + 1))
      ∧ m'.src = m.src := by
  obtain ⟨v1, h1⟩ := apply_withStart v r.start
  obtain ⟨v2, h2⟩ := apply_withEnd v1 r.stop
  have hr1 := step3 v v1 w _ hrep h1
  have hr2 := step3 v1 v2 _ _ hr1 h2
  simp only [toSpecOp, Spec.Win.apply] at hr2
  obtain ⟨h, hh, hle⟩ := minOpt_some w.hi r.stop
  rw [hh] at hr2 ⊢
  have hcap' : CapLim c m.src h := by
    unfold CapLim at hcap ⊢
    cases hl : m.src.len with
    | none => rw [hl] at hcap; simp only at hcap ⊢; omega
    | some L => rw [hl] at hcap; exact hcap
  obtain ⟨m', hf, hm'⟩ := forward_bounded c m v2 (max w.lo r.start) h ((r.stop - r.start).toNat + 1)
    hr2 hc hmax hcap'
  refine ⟨m', ?_, hm'⟩
  unfold rangeFeed3
  rw [h1]
  simp only
  rw [h2]
  simp only
  rw [hf]

theorem toPairs_cons (r : PRange) (rs : List PRange) :
    toPairs (r :: rs) = (r.start, r.stop) :: toPairs rs := rfl

theorem shownOf_cons (len : Option Nat) (digit : Nat → Nat) (w : Spec.Win) (s e : Int)
    (rest : List (Int × Int)) :
    Spec.shownOf len digit w ((s, e) :: rest) =
      Spec.windowList len digit { lo := max w.lo s, hi := Spec.minOpt w.hi e } ((e - s).toNat + 1)
        ++ Spec.shownOf len digit w rest := by
  simp [Spec.shownOf]

/-- all ranges, threading the memoizer state (only its source matters) -/
theorem feeds_spec (c : MemoCfg) (src : Src) (v : Val3) (w : Spec.Win) (hrep : Rep3 v w)
    (hc : 0 < c.chunk) (hmax : ((c.chunk * c.maxChunks : Nat) : Int) ≤ maxInt) :
    ∀ (ranges : List PRange) (m : Memo), m.src = src → (∀ r ∈ ranges, CapLim c src r.stop) →
      ∃ m' feeds, fprintFeeds3 c m v ranges = some (m', feeds) ∧ m'.src = src ∧
        feeds.flatten = Spec.shownOf src.len src.digit w (toPairs ranges) := by
  intro ranges
  induction ranges with
  | nil =>
    intro m hm _
    exact ⟨m, [], rfl, hm, by simp [toPairs, Spec.shownOf]⟩
  | cons r rs ih =>
    intro m hm hcap
    obtain ⟨m1, hf, hm1⟩ := rangeFeed3_spec c m v w r hrep hc hmax
      (hm ▸ hcap r List.mem_cons_self)
    obtain ⟨m2, fs, hfs, hm2, hfl⟩ := ih m1 (hm1.trans hm)
      (fun r' hr' => hcap r' (List.mem_cons_of_mem _ hr'))
    rw [hm] at hf
    refine ⟨m2, Spec.windowList src.len src.digit
      { lo := max w.lo r.start, hi := Spec.minOpt w.hi r.stop } ((r.stop - r.start).toNat + 1) :: fs,
      ?_, hm2, ?_⟩
    · unfold fprintFeeds3
      rw [hf]
      simp only
      rw [hfs]
    · rw [List.flatten_cons, hfl, toPairs_cons, shownOf_cons]

/-- elements of a window with an upper bound -/
theorem mem_windowList (len : Option Nat) (digit : Nat → Nat) (lo h : Int) (hi : Option Int)
    (take : Nat) (hh : hi = some h) (x : Nat × Nat)
    (hx : x ∈ Spec.windowList len digit ⟨lo, hi⟩ take) :
    lo ≤ x.1 ∧ (x.1 : Int) < h ∧ x.2 = digit x.1 := by
  subst hh
  unfold Spec.windowList Spec.upper at hx
  simp only at hx
  obtain ⟨p, hp, rfl⟩ := List.mem_map.1 hx
  rw [List.mem_range'_1] at hp
  cases len with
  | none => simp only at hp ⊢; refine ⟨?_, ?_, trivial⟩ <;> omega
  | some L => simp only at hp ⊢; refine ⟨?_, ?_, trivial⟩ <;> omega

theorem windowList_asc (len : Option Nat) (digit : Nat → Nat) (w : Spec.Win) (take : Nat) :
    StrictAsc (Spec.windowList len digit w take) := by
  unfold StrictAsc Spec.windowList
  simp only
  rw [List.pairwise_map]
  exact List.pairwise_lt_range'

theorem mem_shownOf (len : Option Nat) (digit : Nat → Nat) (w : Spec.Win) (rs : List PRange)
    (x : Nat × Nat) (hx : x ∈ Spec.shownOf len digit w (toPairs rs)) :
    x.2 = digit x.1 ∧ ∃ r ∈ rs, r.start ≤ x.1 ∧ (x.1 : Int) < r.stop := by
  unfold Spec.shownOf toPairs at hx
  rw [List.mem_flatMap] at hx
  obtain ⟨p, hp, hx⟩ := hx
  obtain ⟨r, hr, rfl⟩ := List.mem_map.1 hp
  simp only at hx
  obtain ⟨h, hh, hle⟩ := minOpt_some w.hi r.stop
  have := mem_windowList len digit _ h _ _ hh x hx
  exact ⟨this.2.2, r, hr, by omega, by omega⟩

theorem shownOf_asc (len : Option Nat) (digit : Nat → Nat) (w : Spec.Win) (rs : List PRange)
    (hd : Disj rs) : StrictAsc (Spec.shownOf len digit w (toPairs rs)) := by
  induction rs with
  | nil => simp [toPairs, Spec.shownOf, StrictAsc]
  | cons r rs ih =>
    unfold Disj at hd
    rw [List.pairwise_cons] at hd
    rw [toPairs_cons, shownOf_cons]
    unfold StrictAsc
    rw [List.pairwise_append]
    refine ⟨windowList_asc _ _ _ _, ih hd.2, ?_⟩
    intro a ha b hb
    obtain ⟨h, hh, hle⟩ := minOpt_some w.hi r.stop
    have h1 := mem_windowList len digit _ h _ _ hh a ha
    obtain ⟨_, r', hr', h2, _⟩ := mem_shownOf len digit w rs b hb
    have := hd.1 r' hr'
    omega

end FP

open ViewL in
/-- the feeds handed to the printer are the requested existing positions, range by range -/
theorem fprint_feeds_spec (c : MemoCfg) (m : Memo) (b v : Val3) (chain : List ViewOp) (ranges : List PRange)
    (hb : IsBase3 b) (hv : applyChain3 b chain = some v)
    (hnorm : Spec.NormalRanges (toPairs ranges)) (hfit : FitsRanges c m.src ranges) :
    ∃ m' feeds, fprintFeeds3 c m v ranges = some (m', feeds) ∧ m'.src = m.src ∧
      feeds.flatten = Spec.shownOf m.src.len m.src.digit (Spec.winOf (chain.map toSpecOp)) (toPairs ranges) ∧
      StrictAsc feeds.flatten := by
  obtain ⟨hc, hmax, hcap⟩ := hfit
  have hrep := chain3 chain b v {} (base3 b hb) hv
  have hcaps : ∀ r ∈ ranges, FP.CapLim c m.src r.stop := by
    intro r hr
    unfold FP.CapLim
    cases hl : m.src.len with
    | none => rw [hl] at hcap; simp only at hcap ⊢; have := hcap r hr; omega
    | some L => rw [hl] at hcap; exact hcap
  obtain ⟨m', feeds, h1, h2, h3⟩ := FP.feeds_spec c m.src v _ hrep hc hmax ranges m rfl hcaps
  refine ⟨m', feeds, h1, h2, h3, ?_⟩
  rw [h3]
  exact FP.shownOf_asc _ _ _ _ ((normal_iff ranges).1 hnorm).2

/-- C10 end to end: Sprint/Fprint output = canonical layout of the shown positions -/
theorem fprint_is_layout (c : MemoCfg) (m : Memo) (b v : Val3) (chain : List ViewOp) (ranges : List PRange)
    (s : PSettings) (w : Nat → List Nat → Nat × Bool × Nat) (st : Nat) (hw : Reliable w)
    (hb : IsBase3 b) (hv : applyChain3 b chain = some v)
    (hnorm : Spec.NormalRanges (toPairs ranges)) (hfit : FitsRanges c m.src ranges)
    (hd : ∀ p, m.src.digit p ≤ 9) :
    ∃ r, fprint3 c m { w := w, st := st } s v ranges = some (.ok r) ∧
      r.accepted = Spec.layout (toPOpts .v3 s (positionsEnd ranges))
        (Spec.shownOf m.src.len m.src.digit (Spec.winOf (chain.map toSpecOp)) (toPairs ranges)) ∧
      r.written = r.accepted.length ∧ r.err = false := by
  obtain ⟨m', feeds, h1, _, h3, h4⟩ := fprint_feeds_spec c m b v chain ranges hb hv hnorm hfit
  have hd' : ∀ x ∈ feeds.flatten, x.2 ≤ 9 := by
    intro x hx
    rw [h3] at hx
    rw [(FP.mem_shownOf _ _ _ _ x hx).1]
    exact hd _
  obtain ⟨r, hr, hacc, hwr, herr, _⟩ :=
    print_layout .v3 s (positionsEnd ranges) feeds w st hw h4 hd'
  refine ⟨r, ?_, ?_, hwr, herr⟩
  · unfold fprint3
    rw [h1]
    simp only
    rw [hr]
  · rw [hacc, h3]

end Sqroot.Proofs

/-
C10 end to end (v3): Fprint on any view of any Number with any normalised Positions value prints
the canonical layout of exactly the requested positions that exist in the view.
Composition of the view theorem (C07), the Positions normal form (C11) and the printer theorem.
-/
import Sqroot.Model.Fprint
import Sqroot.Proofs.View
import Sqroot.Proofs.Print
import Sqroot.Proofs.Positions
namespace Sqroot.Proofs
open Sqroot.Model

/-- capacity side condition for all ranges at once: the sequence is finite and within capacity,
or every range ends within capacity -/
def FitsRanges (c : MemoCfg) (src : Src) (ranges : List PRange) : Prop :=
  0 < c.chunk ∧ ((c.chunk * c.maxChunks : Nat) : Int) ≤ maxInt ∧
  (match src.len with
   | some L => L < c.chunk * c.maxChunks
   | none => ∀ r ∈ ranges, r.stop + 1 < (c.chunk * c.maxChunks : Nat))

/-- the feeds handed to the printer are the requested existing positions, range by range -/
theorem fprint_feeds_spec (c : MemoCfg) (m : Memo) (b v : Val3) (chain : List ViewOp) (ranges : List PRange)
    (hb : IsBase3 b) (hv : applyChain3 b chain = some v)
    (hnorm : Spec.NormalRanges (toPairs ranges)) (hfit : FitsRanges c m.src ranges) :
    ∃ m' feeds, fprintFeeds3 c m v ranges = some (m', feeds) ∧ m'.src = m.src ∧
      feeds.flatten = Spec.shownOf m.src.len m.src.digit (Spec.winOf (chain.map toSpecOp)) (toPairs ranges) ∧
      StrictAsc feeds.flatten := by
  sorry

/-- C10 end to end: Sprint/Fprint output = canonical layout of the shown positions -/
theorem fprint_is_layout (c : MemoCfg) (m : Memo) (b v : Val3) (chain : List ViewOp) (ranges : List PRange)
    (s : PSettings) (w : Nat → List Nat → Nat × Bool × Nat) (st : Nat) (hw : Reliable w)
    (hb : IsBase3 b) (hv : applyChain3 b chain = some v)
    (hnorm : Spec.NormalRanges (toPairs ranges)) (hfit : FitsRanges c m.src ranges)
    (hd : ∀ p, m.src.digit p ≤ 9) :
    ∃ r, fprint3 c m { w := w, st := st } s v ranges = some (.ok r) ∧
      r.accepted = Spec.layout (toPOpts .v3 s (positionsEnd ranges))
        (Spec.shownOf m.src.len m.src.digit (Spec.winOf (chain.map toSpecOp)) (toPairs ranges)) ∧
      r.written = r.accepted.length ∧ r.err = false := by
  sorry

end Sqroot.Proofs

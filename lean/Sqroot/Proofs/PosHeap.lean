/-
C11 / C14: a Positions value built earlier is never altered by later use of the builder — on the
slice-and-heap model `Model/PosHeap.lean`.
-/
import Sqroot.Model.PosHeap
namespace Sqroot.Proofs
open Sqroot.Model

/-! ### helper lemmas: well-formed slices, frame (`Same`) and ownership (`Fresh`) invariants,
simulation relation (`Rel`) -/
namespace PH

theorem getD_modify_ne {l : List (List PRange)} {a i : Nat} (f : List PRange → List PRange) (h : i ≠ a) :
    (l.modify a f).getD i [] = l.getD i [] := by
  have h' : ¬ a = i := fun h' => h h'.symm
  simp [h']

theorem getD_modify_eq {l : List (List PRange)} {a : Nat} (f : List PRange → List PRange)
    (h : a < l.length) : (l.modify a f).getD a [] = f (l.getD a []) := by
  simp [h]

theorem getD_append_lt {l : List (List PRange)} {c : List PRange} {i : Nat} (h : i < l.length) :
    (l ++ [c]).getD i [] = l.getD i [] := by
  simp [List.getElem?_append_left h]

theorem getD_append_eq {l : List (List PRange)} {c : List PRange} :
    (l ++ [c]).getD l.length [] = c := by
  simp

theorem take_set_succ {α} (l : List α) (k : Nat) (x : α) (h : k < l.length) :
    (l.set k x).take (k + 1) = l.take k ++ [x] := by
  induction l generalizing k with
  | nil => simp at h
  | cons y ys ih =>
    cases k with
    | zero => simp
    | succ k => simp at h; simp [ih k h]

theorem take_set_last {α} (l : List α) (n : Nat) (x : α) (h0 : 0 < n) (h : n ≤ l.length) :
    (l.set (n - 1) x).take n = (l.take n).dropLast ++ [x] := by
  obtain ⟨k, rfl⟩ : ∃ k, n = k + 1 := ⟨n - 1, by omega⟩
  simp only [Nat.add_sub_cancel]
  rw [take_set_succ l k x (by omega), List.dropLast_eq_take, List.length_take, List.take_take]
  congr 2
  omega

def WF (h : PHeap) (s : SliceH) : Prop :=
  ∀ a, s.arr = some a → a < h.arrays.length ∧ s.len ≤ s.cap ∧ (h.arrays.getD a []).length = s.cap

def Fresh (n : Nat) (h : PHeap) (s : SliceH) : Prop :=
  n ≤ h.arrays.length ∧ WF h s ∧ ∀ a, s.arr = some a → n ≤ a

def Same (n : Nat) (h h' : PHeap) : Prop :=
  ∀ i, i < n → h'.arrays.getD i [] = h.arrays.getD i []

theorem Same.refl (n : Nat) (h : PHeap) : Same n h h := fun _ _ => rfl

theorem Same.trans {n : Nat} {h1 h2 h3 : PHeap} (a : Same n h1 h2) (b : Same n h2 h3) : Same n h1 h3 :=
  fun i hi => (b i hi).trans (a i hi)

theorem fresh_zero {h : PHeap} {s : SliceH} (hw : WF h s) : Fresh 0 h s :=
  ⟨Nat.zero_le _, hw, fun _ _ => Nat.zero_le _⟩

theorem fresh_nil {n : Nat} {h : PHeap} (hn : n ≤ h.arrays.length) : Fresh n h nilSlice :=
  ⟨hn, fun a ha => by simp [nilSlice] at ha, fun a ha => by simp [nilSlice] at ha⟩

theorem read_same {n : Nat} {h h' : PHeap} (hs : Same n h h') {t : SliceH} {a : Nat}
    (ht : t.arr = some a) (ha : a < n) : h'.read t = h.read t := by
  simp only [PHeap.read, ht, hs a ha]

theorem writeAt_fresh {n : Nat} {h : PHeap} {s : SliceH} {a : Nat} (i : Nat) (x : PRange)
    (hf : Fresh n h s) (ha : s.arr = some a) (s' : SliceH) (h1 : s'.arr = s.arr) (h2 : s'.cap = s.cap)
    (h3 : s'.len ≤ s'.cap) :
    Fresh n (h.writeAt a i x) s' ∧ Same n h (h.writeAt a i x) := by
  obtain ⟨hn, hw, hge⟩ := hf
  obtain ⟨hal, hlc, hcap⟩ := hw a ha
  refine ⟨⟨?_, ?_, ?_⟩, ?_⟩
  · simpa [PHeap.writeAt] using hn
  · intro a' ha'
    rw [h1, ha] at ha'
    cases ha'
    refine ⟨by simpa [PHeap.writeAt] using hal, h3, ?_⟩
    simp only [PHeap.writeAt]
    rw [getD_modify_eq _ hal, List.length_set, hcap, h2]
  · intro a' ha'
    rw [h1] at ha'
    exact hge a' ha'
  · intro j hj
    have : j ≠ a := by have := hge a ha; omega
    simp only [PHeap.writeAt]
    exact getD_modify_ne _ this


theorem append_fresh {n : Nat} {h : PHeap} {s : SliceH} (hf : Fresh n h s) (x : PRange) :
    Fresh n (h.append s x).1 (h.append s x).2 ∧ Same n h (h.append s x).1 := by
  unfold PHeap.append
  cases hs : s.arr with
  | none =>
    obtain ⟨hn, -, -⟩ := hf
    refine ⟨⟨by simp; omega, ?_, ?_⟩, ?_⟩
    · intro a ha
      simp at ha
      subst ha
      simp
    · intro a ha
      simp at ha
      omega
    · intro i hi
      exact getD_append_lt (by omega)
  | some a =>
    simp only []
    split
    · exact writeAt_fresh _ _ hf hs _ hs.symm rfl (by simp; omega)
    · rename_i hlt
      obtain ⟨hn, hw, hge⟩ := hf
      obtain ⟨hal, hlc, hcap⟩ := hw a hs
      rw [List.getD_eq_getElem?_getD] at hcap
      refine ⟨⟨by simp; omega, ?_, ?_⟩, ?_⟩
      · intro a' ha'
        simp at ha'
        subst ha'
        simp [PHeap.read, hs]
        omega
      · intro a' ha'
        simp at ha'
        omega
      · intro i hi
        exact getD_append_lt (by omega)

theorem read_append {h : PHeap} {s : SliceH} (hw : WF h s) (x : PRange) :
    (h.append s x).1.read (h.append s x).2 = h.read s ++ [x] := by
  unfold PHeap.append
  cases hs : s.arr with
  | none => simp [PHeap.read, hs]
  | some a =>
    obtain ⟨hal, hlc, hcap⟩ := hw a hs
    simp only []
    split
    · rename_i hlt
      simp only [PHeap.read, hs, PHeap.writeAt]
      rw [getD_modify_eq _ hal, take_set_succ _ _ _ (by omega)]
    · rw [List.getD_eq_getElem?_getD] at hcap
      have hl : (List.take s.len (h.arrays[a]?.getD [])).length = s.len := by
        simp; omega
      simp only [PHeap.read, hs, List.getD_eq_getElem?_getD, List.getElem?_concat_length, Option.getD_some]
      rw [List.take_append_of_le_length (by simp; omega)]
      exact List.take_of_length_le (by simp; omega)

theorem hanb_fresh {n : Nat} {h : PHeap} {s : SliceH} (hf : Fresh n h s) (item : PRange) :
    Fresh n (hAppendNotBefore h s item).1 (hAppendNotBefore h s item).2 ∧
      Same n h (hAppendNotBefore h s item).1 := by
  unfold hAppendNotBefore
  split
  · rename_i last a hl ha
    split
    · split
      · exact writeAt_fresh _ _ hf ha s rfl rfl (hf.2.1 a ha).2.1
      · exact ⟨hf, Same.refl _ _⟩
    · exact append_fresh hf item
  · exact ⟨hf, Same.refl _ _⟩

theorem hanb_refines {h : PHeap} {s : SliceH} (hw : WF h s) (item : PRange) (rs' : List PRange)
    (hok : appendNotBefore item (h.read s) = .ok rs') :
    (hAppendNotBefore h s item).1.read (hAppendNotBefore h s item).2 = rs' := by
  unfold appendNotBefore at hok
  unfold hAppendNotBefore
  cases hl : (h.read s).getLast? with
  | none => rw [hl] at hok; simp at hok
  | some last =>
    rw [hl] at hok
    cases hs : s.arr with
    | none => simp [PHeap.read, hs] at hl
    | some a =>
      obtain ⟨hal, hlc, hcap⟩ := hw a hs
      simp only []
      simp only [] at hok
      split
      · rename_i h1
        rw [if_pos h1] at hok
        split
        · rename_i h2
          rw [if_pos h2] at hok
          cases hok
          have hne : h.read s ≠ [] := by intro e; simp [e] at hl
          simp only [PHeap.read, hs] at hne ⊢
          simp only [PHeap.writeAt]
          rw [getD_modify_eq _ hal]
          apply take_set_last
          · cases hlen : s.len with
            | zero => simp [hlen] at hne
            | succ k => omega
          · omega
        · rename_i h2
          rw [if_neg h2] at hok
          cases hok
          rfl
      · rename_i h1
        rw [if_neg h1] at hok
        cases hok
        exact read_append hw item

theorem addRange_fresh {n : Nat} {h : PHeap} {b : HBuilder} (hf : Fresh n h b.ranges) (s e : Int) :
    Fresh n (b.addRange h s e).1 (b.addRange h s e).2.ranges ∧ Same n h (b.addRange h s e).1 := by
  unfold HBuilder.addRange
  simp only []
  generalize (if s < 0 then 0 else s) = st
  split
  · exact ⟨hf, Same.refl _ _⟩
  · split
    · exact append_fresh hf _
    · split
      · exact append_fresh hf _
      · exact hanb_fresh hf _

theorem fold_fresh {n : Nat} (rest : List PRange) : ∀ (p : PHeap × SliceH), Fresh n p.1 p.2 →
    Fresh n (rest.foldl (fun (acc : PHeap × SliceH) r => hAppendNotBefore acc.1 acc.2 r) p).1
      (rest.foldl (fun (acc : PHeap × SliceH) r => hAppendNotBefore acc.1 acc.2 r) p).2 ∧
    Same n p.1 (rest.foldl (fun (acc : PHeap × SliceH) r => hAppendNotBefore acc.1 acc.2 r) p).1 := by
  induction rest with
  | nil => intro p hp; exact ⟨hp, Same.refl _ _⟩
  | cons r rest ih =>
    intro p hp
    simp only [List.foldl_cons]
    have h1 := hanb_fresh hp r
    have h2 := ih _ h1.1
    exact ⟨h2.1, h1.2.trans h2.2⟩

/-- `Build`: the reset builder is fresh, old arrays are untouched, the result header is well-formed -/
theorem build_fresh {n : Nat} {h : PHeap} {b : HBuilder} (hf : Fresh n h b.ranges) :
    Fresh n (b.build h).1 (b.build h).2.2.ranges ∧ Same n h (b.build h).1 ∧
      WF (b.build h).1 (b.build h).2.1 ∧ (b.build h).2.2.ranges = nilSlice := by
  unfold HBuilder.build
  split
  · exact ⟨fresh_nil hf.1, Same.refl _ _, hf.2.1, rfl⟩
  · split
    · exact ⟨fresh_nil hf.1, Same.refl _ _, (fresh_nil (Nat.zero_le _)).2.1, rfl⟩
    · rename_i a ha
      simp only []
      have hge := hf.2.2 a ha
      have hS : Same n h ⟨h.arrays.modify a (fun arr => sortByStart (h.read b.ranges) ++ arr.drop b.ranges.len)⟩ := by
        intro i hi
        exact getD_modify_ne _ (by omega)
      have hL : n ≤ (⟨h.arrays.modify a (fun arr => sortByStart (h.read b.ranges) ++ arr.drop b.ranges.len)⟩ : PHeap).arrays.length := by
        simp; exact hf.1
      split
      · exact ⟨fresh_nil hL, hS, (fresh_nil (Nat.zero_le _)).2.1, rfl⟩
      · rename_i r0 rest hsorted
        have h2 := append_fresh (fresh_nil hL) r0
        have h3 := fold_fresh rest _ h2.1
        have h2' := append_fresh (fresh_nil (Nat.zero_le _ : 0 ≤ (⟨h.arrays.modify a (fun arr => sortByStart (h.read b.ranges) ++ arr.drop b.ranges.len)⟩ : PHeap).arrays.length)) r0
        have h3' := fold_fresh rest _ h2'.1
        exact ⟨fresh_nil h3.1.1, hS.trans (h2.2.trans h3.2), h3'.1.2.1, rfl⟩

theorem run_fresh {n : Nat} (cs : List HCall) : ∀ (h : PHeap) (b : HBuilder) (acc : List SliceH),
    Fresh n h b.ranges →
    Fresh n (runHCalls cs h b acc).1 (runHCalls cs h b acc).2.1.ranges ∧
      Same n h (runHCalls cs h b acc).1 := by
  induction cs with
  | nil => intro h b acc hf; exact ⟨hf, Same.refl _ _⟩
  | cons c cs ih =>
    intro h b acc hf
    cases c with
    | add p =>
      simp only [runHCalls]
      have h1 := addRange_fresh hf p (wrap64 (p + 1))
      have h2 := ih _ _ acc h1.1
      exact ⟨h2.1, h1.2.trans h2.2⟩
    | addRange s e =>
      simp only [runHCalls]
      have h1 := addRange_fresh hf s e
      have h2 := ih _ _ acc h1.1
      exact ⟨h2.1, h1.2.trans h2.2⟩
    | build =>
      simp only [runHCalls]
      have h1 := build_fresh hf
      have h2 := ih _ _ (acc ++ [(b.build h).2.1]) h1.1
      exact ⟨h2.1, h1.2.1.trans h2.2⟩

def Rel (h : PHeap) (hb : HBuilder) (b : Builder) : Prop :=
  h.read hb.ranges = b.ranges ∧ hb.unsorted = b.unsorted ∧ WF h hb.ranges

theorem addRange_refines {h : PHeap} {hb : HBuilder} {b : Builder} (hr : Rel h hb b) (s e : Int)
    (b' : Builder) (hok : b.addRange s e = .ok b') :
    Rel (hb.addRange h s e).1 (hb.addRange h s e).2 b' := by
  obtain ⟨hread, huns, hw⟩ := hr
  unfold Builder.addRange at hok
  unfold HBuilder.addRange
  simp only [] at hok ⊢
  generalize (if s < 0 then 0 else s) = st at hok ⊢
  rw [hread]
  split
  · rename_i h1
    rw [if_pos h1] at hok
    cases hok
    exact ⟨hread, huns, hw⟩
  · rename_i h1
    rw [if_neg h1] at hok
    cases hl : b.ranges.getLast? with
    | none =>
      rw [hl] at hok
      simp only [] at hok ⊢
      cases hok
      exact ⟨by rw [read_append hw, hread], huns, (append_fresh (fresh_zero hw) _).1.2.1⟩
    | some last =>
      rw [hl] at hok
      simp only [] at hok ⊢
      split
      · rename_i h2
        rw [if_pos h2] at hok
        cases hok
        exact ⟨by rw [read_append hw, hread], rfl, (append_fresh (fresh_zero hw) _).1.2.1⟩
      · rename_i h2
        rw [if_neg h2] at hok
        cases hq : appendNotBefore ⟨st, e⟩ b.ranges with
        | error err => rw [hq] at hok; cases hok
        | ok rs' =>
          rw [hq] at hok
          cases hok
          rw [← hread] at hq
          exact ⟨hanb_refines hw _ _ hq, huns, (hanb_fresh (fresh_zero hw) _).1.2.1⟩

theorem fold_refines (rest : List PRange) : ∀ (p : PHeap × SliceH) (acc res : List PRange),
    WF p.1 p.2 → p.1.read p.2 = acc →
    rest.foldlM (fun acc r => appendNotBefore r acc) acc = .ok res →
    (rest.foldl (fun (acc : PHeap × SliceH) r => hAppendNotBefore acc.1 acc.2 r) p).1.read
      (rest.foldl (fun (acc : PHeap × SliceH) r => hAppendNotBefore acc.1 acc.2 r) p).2 = res := by
  induction rest with
  | nil =>
    intro p acc res hw hread hok
    cases hok
    exact hread
  | cons r rest ih =>
    intro p acc res hw hread hok
    rw [List.foldlM_cons] at hok
    simp only [List.foldl_cons]
    cases hq : appendNotBefore r acc with
    | error err => rw [hq] at hok; cases hok
    | ok acc' =>
      rw [hq] at hok
      rw [← hread] at hq
      exact ih _ acc' res (hanb_fresh (fresh_zero hw) _).1.2.1 (hanb_refines hw _ _ hq) hok

theorem build_refines {h : PHeap} {hb : HBuilder} {b : Builder} (hr : Rel h hb b)
    (res : List PRange) (b' : Builder) (hok : b.build = .ok (res, b')) :
    (hb.build h).1.read (hb.build h).2.1 = res := by
  obtain ⟨hread, huns, hw⟩ := hr
  unfold Builder.build Builder.buildWith at hok
  unfold HBuilder.build
  rw [huns]
  cases hu : b.unsorted with
  | false =>
    rw [hu] at hok
    simp at hok ⊢
    rw [hread]; exact hok.1
  | true =>
    rw [hu] at hok
    simp only [Bool.not_true, Bool.false_eq_true, if_false] at hok ⊢
    cases ha : hb.ranges.arr with
    | none =>
      have : b.ranges = [] := by rw [← hread]; simp [PHeap.read, ha]
      rw [this] at hok
      simp [sortByStart, mergeSorted] at hok
      cases hok
    | some a =>
      simp only []
      rw [hread]
      generalize sortByStart b.ranges = sorted at hok ⊢
      cases sorted with
      | nil => simp [mergeSorted] at hok; cases hok
      | cons r0 rest =>
        simp only [mergeSorted] at hok ⊢
        cases hq : rest.foldlM (fun acc r => appendNotBefore r acc) [r0] with
        | error err => rw [hq] at hok; cases hok
        | ok res' =>
          rw [hq] at hok
          cases hok
          apply fold_refines rest _ [r0] _ _ _ hq
          · exact (append_fresh (fresh_nil (Nat.zero_le _)) r0).1.2.1
          · rw [read_append (fresh_nil (Nat.zero_le _)).2.1]; rfl

theorem run_refines (f : BCall → HCall) (hadd : ∀ p, f (.add p) = HCall.add p)
    (haddr : ∀ s e, f (.addRange s e) = HCall.addRange s e) (cs : List BCall) :
    ∀ (h : PHeap) (hb : HBuilder) (b0 b : Builder) (acc : List SliceH), Rel h hb b0 →
    b0.calls cs = .ok b →
    Rel (runHCalls (cs.map f) h hb acc).1 (runHCalls (cs.map f) h hb acc).2.1 b := by
  induction cs with
  | nil =>
    intro h hb b0 b acc hr hok
    cases hok
    exact hr
  | cons c cs ih =>
    intro h hb b0 b acc hr hok
    unfold Builder.calls at hok
    rw [List.foldlM_cons] at hok
    cases hq : b0.call c with
    | error err => rw [hq] at hok; cases hok
    | ok b1 =>
      rw [hq] at hok
      cases c with
      | add p =>
        simp only [List.map_cons, hadd, runHCalls]
        exact ih _ _ b1 b acc (addRange_refines hr _ _ _ hq) hok
      | addRange s e =>
        simp only [List.map_cons, haddr, runHCalls]
        exact ih _ _ b1 b acc (addRange_refines hr _ _ _ hq) hok

end PH

/-- Isolation: whatever script precedes a `Build` and whatever script follows it on the SAME
builder, the Positions value handed out by that `Build` reads the same afterwards. -/
theorem build_isolated (pre post : List HCall) :
    let r1 := runHCalls pre ⟨[]⟩ {} []
    let built := r1.2.1.build r1.1
    let r2 := runHCalls post built.1 built.2.2 []
    r2.1.read built.2.1 = built.1.read built.2.1 := by
  intro r1 built r2
  have h0 : PH.Fresh 0 (⟨[]⟩ : PHeap) ({} : HBuilder).ranges := PH.fresh_nil (Nat.le_refl _)
  have h1 := (PH.run_fresh pre ⟨[]⟩ {} [] h0).1
  have hb := PH.build_fresh h1
  cases ha : built.2.1.arr with
  | none => simp [PHeap.read, ha]
  | some a =>
    have hlt := (hb.2.2.1 a ha).1
    have hf : PH.Fresh built.1.arrays.length built.1 built.2.2.ranges := by
      rw [hb.2.2.2]; exact PH.fresh_nil (Nat.le_refl _)
    exact PH.read_same (PH.run_fresh post _ _ [] hf).2 ha hlt

/-- the heap builder computes what the pure builder computes (so `build_normal_exact_union`
applies to what is handed out) -/
theorem heap_build_refines (cs : List BCall) (b : Builder) (hb : ({} : Builder).calls cs = .ok b) :
    let hcs := cs.map (fun c => match c with | .add p => HCall.add p | .addRange s e => HCall.addRange s e)
    let r := runHCalls hcs ⟨[]⟩ {} []
    r.1.read r.2.1.ranges = b.ranges ∧ r.2.1.unsorted = b.unsorted ∧
    (∀ res b', b.build = .ok (res, b') → (r.2.1.build r.1).1.read (r.2.1.build r.1).2.1 = res) := by
  intro hcs r
  have h0 : PH.Rel (⟨[]⟩ : PHeap) ({} : HBuilder) ({} : Builder) :=
    ⟨rfl, rfl, (PH.fresh_nil (Nat.le_refl _)).2.1⟩
  have hr := PH.run_refines (fun c => match c with | .add p => HCall.add p | .addRange s e => HCall.addRange s e) (fun _ => rfl) (fun _ _ => rfl) cs ⟨[]⟩ {} {} b [] h0 hb
  exact ⟨hr.1, hr.2.1, fun res b' hok => PH.build_refines hr res b' hok⟩

end Sqroot.Proofs

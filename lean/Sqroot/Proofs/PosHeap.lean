/-
C11 / C14: a Positions value built earlier is never altered by later use of the builder — on the
slice-and-heap model `Model/PosHeap.lean`.
-/
import Sqroot.Model.PosHeap
namespace Sqroot.Proofs
open Sqroot.Model

/-- Isolation: whatever script precedes a `Build` and whatever script follows it on the SAME
builder, the Positions value handed out by that `Build` reads the same afterwards. -/
theorem build_isolated (pre post : List HCall) :
    let r1 := runHCalls pre ⟨[]⟩ {} []
    let built := r1.2.1.build r1.1
    let r2 := runHCalls post built.1 built.2.2 []
    r2.1.read built.2.1 = built.1.read built.2.1 := by
  sorry

/-- the heap builder computes what the pure builder computes (so `build_normal_exact_union`
applies to what is handed out) -/
theorem heap_build_refines (cs : List BCall) (b : Builder) (hb : ({} : Builder).calls cs = .ok b) :
    let hcs := cs.map (fun c => match c with | .add p => HCall.add p | .addRange s e => HCall.addRange s e)
    let r := runHCalls hcs ⟨[]⟩ {} []
    r.1.read r.2.1.ranges = b.ranges ∧ r.2.1.unsorted = b.unsorted ∧
    (∀ res b', b.build = .ok (res, b') → (r.2.1.build r.1).1.read (r.2.1.build r.1).2.1 = res) := by
  sorry

end Sqroot.Proofs

/-
Generic facts about "call a closure up to `k` times, stop at the end marker".
Both `iterDigits` (root digits) and `ratIter` (rational digits) are instances.
Core Lean only.
-/
namespace Sqroot.Proofs

variable {σ : Type}

/-- up to `k` successive results of `step`, stopping at `none` -/
def iterD (step : σ → Option (Nat × σ)) : Nat → σ → List Nat
  | 0, _ => []
  | k + 1, s =>
    match step s with
    | none => []
    | some (d, s') => d :: iterD step k s'

/-- state after `k` calls (`none` once the end marker has been returned) -/
def iterS (step : σ → Option (Nat × σ)) : Nat → σ → Option σ
  | 0, s => some s
  | k + 1, s =>
    match step s with
    | none => none
    | some (_, s') => iterS step k s'

/-- the (at most one) digit produced by the call number `k+1` -/
def lastD (step : σ → Option (Nat × σ)) (k : Nat) (s : σ) : List Nat :=
  match iterS step k s with
  | none => []
  | some s' =>
    match step s' with
    | none => []
    | some (d, _) => [d]

theorem iterS_succ (step : σ → Option (Nat × σ)) (k : Nat) (s : σ) :
    iterS step (k + 1) s = (iterS step k s).bind (fun s' => (step s').map Prod.snd) := by
  induction k generalizing s with
  | zero =>
    simp only [iterS]
    cases h : step s with
    | none => simp [h]
    | some p => simp [h]
  | succ k ih =>
    rw [iterS]
    cases h : step s with
    | none => simp [iterS, h]
    | some p =>
      obtain ⟨d, s1⟩ := p
      simp only []
      rw [ih s1]
      conv => rhs; rw [iterS]
      simp [h]

theorem iterD_succ (step : σ → Option (Nat × σ)) (k : Nat) (s : σ) :
    iterD step (k + 1) s = iterD step k s ++ lastD step k s := by
  induction k generalizing s with
  | zero =>
    simp only [iterD, lastD, iterS]
    cases step s with
    | none => rfl
    | some p => rfl
  | succ k ih =>
    rw [iterD]
    cases h : step s with
    | none => simp [iterD, lastD, iterS, h]
    | some p =>
      obtain ⟨d, s1⟩ := p
      simp only []
      rw [ih s1]
      conv => rhs; rw [iterD, lastD, iterS]
      simp [h, lastD]

theorem iterD_length_le (step : σ → Option (Nat × σ)) (k : Nat) (s : σ) :
    (iterD step k s).length ≤ k := by
  induction k generalizing s with
  | zero => simp [iterD]
  | succ k ih =>
    rw [iterD]
    cases h : step s with
    | none => simp
    | some p =>
      obtain ⟨d, s1⟩ := p
      simp only [List.length_cons]
      exact Nat.succ_le_succ (ih s1)

theorem iterS_isSome_iff (step : σ → Option (Nat × σ)) (k : Nat) (s : σ) :
    (∃ s', iterS step k s = some s') ↔ (iterD step k s).length = k := by
  induction k generalizing s with
  | zero => simp [iterD, iterS]
  | succ k ih =>
    rw [iterD, iterS]
    cases h : step s with
    | none => simp
    | some p =>
      obtain ⟨d, s1⟩ := p
      simp only [List.length_cons, Nat.add_right_cancel_iff]
      exact ih s1

theorem iterS_none_iff (step : σ → Option (Nat × σ)) (k : Nat) (s : σ) :
    iterS step k s = none ↔ (iterD step k s).length < k := by
  have h1 := iterS_isSome_iff step k s
  have h2 := iterD_length_le step k s
  cases h : iterS step k s with
  | none =>
    simp only [true_iff]
    rw [h] at h1
    have : ¬ (iterD step k s).length = k := fun hh => by
      obtain ⟨s', hs'⟩ := h1.mpr hh
      cases hs'
    omega
  | some s' =>
    have : (iterD step k s).length = k := h1.mp ⟨s', h⟩
    simp only [reduceCtorEq, false_iff]
    omega

theorem iterD_take (step : σ → Option (Nat × σ)) (j k : Nat) (hjk : j ≤ k) (s : σ) :
    iterD step j s = (iterD step k s).take j := by
  induction j generalizing k s with
  | zero => simp [iterD]
  | succ j ih =>
    obtain ⟨k, rfl⟩ : ∃ k', k = k' + 1 := ⟨k - 1, by omega⟩
    rw [iterD, iterD]
    cases h : step s with
    | none => simp
    | some p =>
      obtain ⟨d, s1⟩ := p
      simp only [List.take_succ_cons, List.cons.injEq, true_and]
      exact ih k (by omega) s1

/-- the stream ends after exactly `L` digits iff the state after `L` calls exists and the next
call returns the end marker -/
theorem iterD_ends_iff (step : σ → Option (Nat × σ)) (L : Nat) (s : σ) :
    (iterD step (L + 1) s).length = L ↔ ∃ s', iterS step L s = some s' ∧ step s' = none := by
  rw [iterD_succ]
  have hle := iterD_length_le step L s
  constructor
  · intro h
    rw [List.length_append] at h
    have hL : (iterD step L s).length = L := by
      have := iterD_take step L (L + 1) (by omega) s
      rw [iterD_succ] at this
      have h3 := congrArg List.length this
      rw [List.length_take, List.length_append] at h3
      omega
    obtain ⟨s', hs'⟩ := (iterS_isSome_iff step L s).mpr hL
    refine ⟨s', hs', ?_⟩
    have h0 : (lastD step L s).length = 0 := by omega
    rw [lastD, hs'] at h0
    cases h4 : step s' with
    | none => rfl
    | some p =>
      simp [h4] at h0
  · rintro ⟨s', hs', hstep⟩
    have hL : (iterD step L s).length = L := (iterS_isSome_iff step L s).mp ⟨s', hs'⟩
    rw [List.length_append, lastD, hs']
    simp [hstep, hL]

theorem iterD_succ_of_some (step : σ → Option (Nat × σ)) (k : Nat) (s s' s'' : σ) (d : Nat)
    (h1 : iterS step k s = some s') (h2 : step s' = some (d, s'')) :
    iterD step (k + 1) s = iterD step k s ++ [d] ∧ iterS step (k + 1) s = some s'' := by
  rw [iterD_succ, iterS_succ, lastD, h1]
  simp [h2]

theorem iterS_succ_inv (step : σ → Option (Nat × σ)) (k : Nat) (s s'' : σ)
    (h : iterS step (k + 1) s = some s'') :
    ∃ s' d, iterS step k s = some s' ∧ step s' = some (d, s'') ∧
      iterD step (k + 1) s = iterD step k s ++ [d] := by
  rw [iterS_succ] at h
  cases h1 : iterS step k s with
  | none => rw [h1] at h; simp at h
  | some s' =>
    rw [h1] at h
    cases h2 : step s' with
    | none => rw [Option.bind_some, h2] at h; simp at h
    | some p =>
      obtain ⟨d, s1⟩ := p
      rw [Option.bind_some, h2] at h
      simp only [Option.map_some, Option.some.injEq] at h
      subst h
      exact ⟨s', d, rfl, h2, (iterD_succ_of_some step k s s' s1 d h1 h2).1⟩

theorem iterD_sticky (step : σ → Option (Nat × σ)) (L : Nat) (s : σ)
    (h : (iterD step (L + 1) s).length = L) (k : Nat) (hk : L ≤ k) :
    iterD step k s = iterD step L s := by
  induction L generalizing k s with
  | zero =>
    rw [iterD] at h
    cases h1 : step s with
    | none =>
      cases k with
      | zero => rfl
      | succ k => simp [iterD, h1]
    | some p => rw [h1] at h; simp at h
  | succ L ih =>
    obtain ⟨k, rfl⟩ : ∃ k', k = k' + 1 := ⟨k - 1, by omega⟩
    rw [iterD] at h
    rw [iterD, iterD]
    cases h1 : step s with
    | none => rfl
    | some p =>
      obtain ⟨d, s1⟩ := p
      rw [h1] at h
      simp only [List.length_cons, Nat.add_right_cancel_iff] at h
      simp only [List.cons.injEq, true_and]
      exact ih s1 h k (by omega)

theorem iterD_never_ends (step : σ → Option (Nat × σ)) (s : σ)
    (hne : ∀ L, ¬ (iterD step (L + 1) s).length = L) (k : Nat) :
    (iterD step k s).length = k := by
  have hle := iterD_length_le step k s
  by_cases hlt : (iterD step k s).length < k
  · exfalso
    apply hne (iterD step k s).length
    have := iterD_take step ((iterD step k s).length + 1) k (by omega) s
    rw [this, List.length_take]
    omega
  · omega

/-- forward invariant principle -/
theorem iter_inv (step : σ → Option (Nat × σ)) (I : Nat → List Nat → σ → Prop) (s0 : σ)
    (h0 : I 0 [] s0)
    (hstep : ∀ j ds s d s', I j ds s → step s = some (d, s') → I (j + 1) (ds ++ [d]) s') :
    ∀ k s', iterS step k s0 = some s' → I k (iterD step k s0) s' := by
  intro k
  induction k with
  | zero =>
    intro s' h
    simp only [iterS, Option.some.injEq] at h
    subst h
    exact h0
  | succ k ih =>
    intro s'' h
    obtain ⟨s', d, h1, h2, h3⟩ := iterS_succ_inv step k s0 s'' h
    rw [h3]
    exact hstep k _ s' d s'' (ih s' h1) h2

/-- the digits actually produced are themselves a full-length run -/
theorem iterD_self_length (step : σ → Option (Nat × σ)) (k : Nat) (s : σ) :
    iterD step (iterD step k s).length s = iterD step k s := by
  rw [iterD_take step _ k (iterD_length_le step k s) s, List.take_length]

end Sqroot.Proofs

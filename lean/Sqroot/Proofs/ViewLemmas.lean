/-
Helper lemmas for `Proofs/View.lean`: the sequential `wait` contract and the read paths
(`Scan` loop, pull closures, `FirstN`) in closed form. Core Lean only.
-/
import Sqroot.Model.View
import Sqroot.Spec.View
namespace Sqroot.Proofs.ViewL
open Sqroot.Model

/-- capacity hypothesis for a `wait(i)` -/
def Cap (c : MemoCfg) (src : Src) (i : Nat) : Prop :=
  match src.len with
  | some L => L < c.chunk * c.maxChunks
  | none => i < c.chunk * c.maxChunks

theorem newML (chunk maxChunks i : Nat) (hc : 0 < chunk) :
    i < chunk * min (i / chunk + 1) maxChunks ∨
      chunk * min (i / chunk + 1) maxChunks = chunk * maxChunks := by
  by_cases h : i / chunk + 1 ≤ maxChunks
  · left
    rw [Nat.min_eq_left h]
    exact Nat.lt_mul_div_succ i hc
  · right
    rw [Nat.min_eq_right (by omega)]

/-- closed form of `wait` -/
theorem wait_eq (c : MemoCfg) (m : Memo) (i : Nat) (hc : 0 < c.chunk) (hcap : Cap c m.src i) :
    ∃ M, m.wait c i = (⟨m.src, M⟩, m.src.minLen M, decide (i < m.src.minLen M)) ∧
      (i < M ∨ ∃ L, m.src.len = some L ∧ L < M) := by
  obtain ⟨src, ML⟩ := m
  by_cases hcond : ((!(Memo.mk src ML).done && decide (ML ≤ i)) = true)
  · refine ⟨c.chunk * min (i / c.chunk + 1) c.maxChunks, ?_, ?_⟩
    · simp only [Memo.wait, hcond, if_true]
    · rcases newML c.chunk c.maxChunks i hc with h | h
      · exact Or.inl h
      · rw [h]
        unfold Cap at hcap
        simp only at hcap
        cases hl : src.len with
        | none => rw [hl] at hcap; exact Or.inl hcap
        | some L => rw [hl] at hcap; exact Or.inr ⟨L, rfl, hcap⟩
  · refine ⟨ML, ?_, ?_⟩
    · simp only [Memo.wait, hcond]
      rfl
    · simp only [Memo.done, Bool.and_eq_true, Bool.not_eq_true', decide_eq_true_eq, not_and] at hcond
      by_cases hi : i < ML
      · exact Or.inl hi
      · right
        cases hl : src.len with
        | none => simp [hl] at hcond; omega
        | some L =>
          simp [hl] at hcond
          exact ⟨L, rfl, by omega⟩

/-- what a reader knows about its snapshot: all it relies on -/
structure SnapOk (src : Src) (index snap : Nat) (ok : Bool) : Prop where
  ok_eq : ok = decide (index < snap)
  below : ok = true → ∀ L, src.len = some L → snap ≤ L
  ended : ok = false → ∃ L, src.len = some L ∧ L ≤ index

theorem wait_snapOk (c : MemoCfg) (m : Memo) (i : Nat) (hc : 0 < c.chunk) (hcap : Cap c m.src i) :
    ∃ m' snap ok, m.wait c i = (m', snap, ok) ∧ m'.src = m.src ∧ SnapOk m.src i snap ok := by
  obtain ⟨M, hw, hM⟩ := wait_eq c m i hc hcap
  refine ⟨_, _, _, hw, rfl, ?_, ?_, ?_⟩
  · rfl
  · intro _ L hL
    simp only [Src.minLen, hL]
    omega
  · intro hok
    simp only [decide_eq_false_iff_not] at hok
    cases hl : m.src.len with
    | none =>
      simp only [Src.minLen, hl] at hok
      rcases hM with h | ⟨L, h, _⟩
      · omega
      · rw [hl] at h; cases h
    | some L =>
      simp only [Src.minLen, hl] at hok
      refine ⟨L, rfl, ?_⟩
      rcases hM with h | ⟨L', h, h2⟩
      · omega
      · rw [hl] at h; cases h; omega

/-- upper bound on positions a `Scan(_, limit)` delivers -/
def ub (len : Option Nat) (limit : Int) : Int :=
  match len with
  | some L => min limit (L : Int)
  | none => limit

/-- capacity hypothesis for a scan of at most `take` items from `index` -/
def CapScan (c : MemoCfg) (src : Src) (index take : Nat) : Prop :=
  match src.len with
  | some L => L < c.chunk * c.maxChunks
  | none => index + take ≤ c.chunk * c.maxChunks

theorem scanLoop_spec (c : MemoCfg) (hc : 0 < c.chunk) (src : Src) (limit : Int) :
    ∀ (take : Nat) (m : Memo) (index snap : Nat) (ok : Bool) (acc : List (Nat × Nat)),
      m.src = src → SnapOk src index snap ok → CapScan c src index take →
      (Memo.scanLoop c take m index limit snap ok acc).1.src = src ∧
      (Memo.scanLoop c take m index limit snap ok acc).2 =
        acc.reverse ++ (List.range' index (min take (ub src.len limit - index).toNat)).map
          (fun p => (p, src.digit p)) := by
  intro take
  induction take with
  | zero =>
    intro m index snap ok acc hm _ _
    simp [Memo.scanLoop, hm]
  | succ take ih =>
    intro m index snap ok acc hm hs hcap
    unfold Memo.scanLoop
    by_cases hstop : (!ok || decide ((index : Int) ≥ limit)) = true
    · rw [if_pos hstop]
      refine ⟨hm, ?_⟩
      have : min (take + 1) (ub src.len limit - index).toNat = 0 := by
        simp only [Bool.or_eq_true, Bool.not_eq_true', decide_eq_true_eq] at hstop
        rcases hstop with h | h
        · obtain ⟨L, hL, hle⟩ := hs.ended h
          simp only [ub, hL]; omega
        · cases hl : src.len <;> simp only [ub] <;> omega
      rw [this]; simp
    · rw [if_neg hstop]
      simp only [Bool.or_eq_true, Bool.not_eq_true', decide_eq_true_eq, not_or, Bool.not_eq_false] at hstop
      obtain ⟨hok, hlim⟩ := hstop
      have hidx : index < snap := by
        have := hs.ok_eq; rw [hok] at this; simpa using this.symm
      have hbelow := hs.below hok
      by_cases ht : take = 0
      · simp only [ht, if_true]
        refine ⟨hm, ?_⟩
        have : min (0 + 1) (ub src.len limit - index).toNat = 1 := by
          cases hl : src.len with
          | none => simp only [ub]; omega
          | some L => have := hbelow L hl; simp only [ub]; omega
        rw [this]; simp [hm]
      · simp only [ht, if_false]
        have hcnt : min (take + 1) (ub src.len limit - index).toNat
            = min take (ub src.len limit - ((index + 1 : Nat) : Int)).toNat + 1 := by
          cases hl : src.len with
          | none => simp only [ub]; omega
          | some L => have := hbelow L hl; simp only [ub]; omega
        have hcap' : CapScan c src (index + 1) take := by
          unfold CapScan at hcap ⊢
          cases hl : src.len with
          | none => rw [hl] at hcap; simp only at hcap ⊢; omega
          | some L => rw [hl] at hcap; exact hcap
        rw [hcnt, List.range'_succ]
        by_cases hsn : index + 1 = snap
        · rw [if_pos hsn]
          have hcapw : Cap c m.src (index + 1) := by
            unfold CapScan at hcap; unfold Cap
            rw [hm]
            cases hl : src.len with
            | none => rw [hl] at hcap; simp only at hcap ⊢; omega
            | some L => rw [hl] at hcap; exact hcap
          obtain ⟨m', snap', ok', hw, hm', hs'⟩ := wait_snapOk c m (index + 1) hc hcapw
          rw [hw]
          simp only
          rw [hm] at hm' hs'
          have := ih m' (index + 1) snap' ok' ((index, m.src.digit index) :: acc) hm' hs' hcap'
          refine ⟨this.1, ?_⟩
          rw [this.2]
          simp [hm]
        · rw [if_neg hsn]
          have hs' : SnapOk src (index + 1) snap ok := by
            refine ⟨?_, hs.below, ?_⟩
            · rw [hok]; simp; omega
            · intro h; rw [hok] at h; cases h
          have := ih m (index + 1) snap ok ((index, m.src.digit index) :: acc) hm hs' hcap'
          refine ⟨this.1, ?_⟩
          rw [this.2]
          simp [hm]

theorem scan_spec (c : MemoCfg) (hc : 0 < c.chunk) (m : Memo) (index limit : Int) (take : Nat)
    (hidx : 0 ≤ index) (hcap : CapScan c m.src index.toNat take) :
    ∃ m', m.scan c index limit take =
        .ok (m', (List.range' index.toNat (min take (ub m.src.len limit - index).toNat)).map
          (fun p => (p, m.src.digit p))) ∧ m'.src = m.src := by
  unfold Memo.scan
  rw [if_neg (by omega)]
  by_cases ht : take = 0
  · rw [if_pos ht]
    exact ⟨m, by simp [ht], rfl⟩
  · rw [if_neg ht]
    have hcapw : Cap c m.src index.toNat := by
      unfold CapScan at hcap; unfold Cap
      cases hl : m.src.len with
      | none => rw [hl] at hcap; simp only at hcap ⊢; omega
      | some L => rw [hl] at hcap; exact hcap
    obtain ⟨m', snap', ok', hw, hm', hs'⟩ := wait_snapOk c m index.toNat hc hcapw
    rw [hw]
    simp only
    have := scanLoop_spec c hc m.src limit take m' index.toNat snap' ok' [] hm' hs' hcap
    refine ⟨_, ?_, this.1⟩
    congr 1
    apply Prod.ext
    · rfl
    · simp only
      rw [this.2]
      have : ((index.toNat : Nat) : Int) = index := by omega
      rw [this]
      simp

/-- `FirstN(n)` returns `min(n, |D|)` -/
theorem firstN_spec (c : MemoCfg) (hc : 0 < c.chunk) (m : Memo) (n : Int) (hn : 0 < n)
    (hcap : Cap c m.src (n - 1).toNat) :
    (m.firstN c n).2 = m.src.minLen n.toNat := by
  unfold Memo.firstN
  rw [if_neg (by omega)]
  obtain ⟨M, hw, hM⟩ := wait_eq c m (n - 1).toNat hc hcap
  rw [hw]
  simp only
  cases hl : m.src.len with
  | none =>
    simp only [Src.minLen, hl]
    rcases hM with h | ⟨L, h, _⟩
    · omega
    · rw [hl] at h; cases h
  | some L =>
    simp only [Src.minLen, hl]
    rcases hM with h | ⟨L', h, h2⟩
    · omega
    · rw [hl] at h; cases h; omega

theorem has_iff (src : Src) (p : Nat) : src.has p = true ↔ ∀ L, src.len = some L → p < L := by
  unfold Src.has
  cases src.len with
  | none => simp
  | some L => simp

theorem has_false_iff (src : Src) (p : Nat) : src.has p = false ↔ ∃ L, src.len = some L ∧ L ≤ p := by
  unfold Src.has
  cases src.len with
  | none => simp
  | some L => simp

theorem SnapOk.has_eq {src : Src} {index snap : Nat} {ok : Bool} (h : SnapOk src index snap ok) :
    src.has index = ok := by
  cases hok : ok with
  | false => exact (has_false_iff _ _).2 (h.ended hok)
  | true =>
    have h1 := h.ok_eq; rw [hok] at h1
    have h1 : index < snap := by simpa using h1.symm
    exact (has_iff _ _).2 fun L hL => by have := h.below hok L hL; omega

/-- one call of the v1/v2 closure -/
theorem pull12_spec (c : MemoCfg) (hc : 0 < c.chunk) (src : Src) (m : Memo) (it : PullIt)
    (hm : m.src = src) (hs : SnapOk src it.index it.snap it.ok) (hcap : Cap c src (it.index + 1)) :
    ∃ m' it', m.pull12 c it = (m', it', if it.ok = true then some (it.index, src.digit it.index) else none) ∧
      m'.src = src ∧
      (it.ok = true → it'.index = it.index + 1 ∧ SnapOk src it'.index it'.snap it'.ok) := by
  unfold Memo.pull12
  cases hok : it.ok with
  | false => exact ⟨m, it, by simp, hm, by simp⟩
  | true =>
    simp only [Bool.not_true, Bool.false_eq_true, if_false, if_true]
    have hidx : it.index < it.snap := by
      have := hs.ok_eq; rw [hok] at this; simpa using this.symm
    by_cases hsn : it.index + 1 = it.snap
    · rw [if_pos hsn]
      obtain ⟨m', snap', ok', hw, hm', hs'⟩ := wait_snapOk c m (it.index + 1) hc (hm ▸ hcap)
      rw [hw]
      simp only
      rw [hm] at hm' hs'
      exact ⟨_, _, by rw [hm], hm', fun _ => ⟨rfl, hs'⟩⟩
    · rw [if_neg hsn]
      refine ⟨_, _, by rw [hm], hm, fun _ => ⟨rfl, ?_, ?_, ?_⟩⟩
      · simp; omega
      · intro _; exact hs.below hok
      · intro h; cases h

/-- `min(lim, |D|)`, `none` if unbounded -/
def upO (len : Option Nat) (lim : Option Int) : Option Int :=
  match lim, len with
  | none, none => none
  | some h, none => some h
  | none, some L => some (L : Int)
  | some h, some L => some (min h (L : Int))

def cntO (u : Option Int) (take index : Nat) : Nat :=
  match u with
  | none => take
  | some u => min take (u - (index : Int)).toNat

def CapPull (c : MemoCfg) (src : Src) (index take : Nat) : Prop :=
  match src.len with
  | some L => L < c.chunk * c.maxChunks
  | none => index + take < c.chunk * c.maxChunks

theorem pullLoop12_spec (c : MemoCfg) (hc : 0 < c.chunk) (src : Src) (lim : Option Int) :
    ∀ (take : Nat) (m : Memo) (it : PullIt) (acc : List (Nat × Nat)),
      m.src = src → SnapOk src it.index it.snap it.ok → CapPull c src it.index take →
      (∀ l, lim = some l → (it.index : Int) ≤ l) →
      (pullLoop12 c take m it lim acc).2 =
        acc.reverse ++ (List.range' it.index (cntO (upO src.len lim) take it.index)).map
          (fun p => (p, src.digit p)) := by
  intro take
  induction take with
  | zero =>
    intro m it acc hm _ _ _
    cases hu : upO src.len lim <;> simp [pullLoop12, cntO]
  | succ take ih =>
    intro m it acc hm hs hcap hlim
    have hcapw : Cap c src (it.index + 1) := by
      unfold CapPull at hcap; unfold Cap
      cases hl : src.len with
      | none => rw [hl] at hcap; simp only at hcap ⊢; omega
      | some L => rw [hl] at hcap; exact hcap
    have hcap' : CapPull c src (it.index + 1) take := by
      unfold CapPull at hcap ⊢
      cases hl : src.len with
      | none => rw [hl] at hcap; simp only at hcap ⊢; omega
      | some L => rw [hl] at hcap; exact hcap
    obtain ⟨m', it', hp, hm', hnext⟩ := pull12_spec c hc src m it hm hs hcapw
    have hhas := hs.has_eq
    -- the common tail: a pull is performed
    have tail : ∀ (hnl : ∀ l, lim = some l → (it.index : Int) < l),
        (match m.pull12 c it with
          | (m', it', r) =>
            match r with
            | none => (m', acc.reverse)
            | some x => pullLoop12 c take m' it' lim (x :: acc)).2 =
          acc.reverse ++ (List.range' it.index (cntO (upO src.len lim) (take + 1) it.index)).map
            (fun p => (p, src.digit p)) := by
      intro hnl
      rw [hp]
      cases hok : it.ok with
      | false =>
        simp only [Bool.false_eq_true, if_false]
        obtain ⟨L, hL, hle⟩ := hs.ended hok
        have : cntO (upO src.len lim) (take + 1) it.index = 0 := by
          cases lim <;> simp only [upO, cntO, hL] <;> omega
        rw [this]; simp
      | true =>
        simp only [if_true]
        obtain ⟨hi', hs'⟩ := hnext hok
        have hidx : it.index < it.snap := by
          have := hs.ok_eq; rw [hok] at this; simpa using this.symm
        have hbelow := hs.below hok
        have hlim' : ∀ l, lim = some l → (it'.index : Int) ≤ l := by
          intro l hl; have := hnl l hl; rw [hi']; omega
        rw [ih m' it' _ hm' hs' (hi' ▸ hcap') hlim', hi']
        have : cntO (upO src.len lim) (take + 1) it.index
            = cntO (upO src.len lim) take (it.index + 1) + 1 := by
          cases hl : src.len with
          | none =>
            cases hlm : lim with
            | none => simp only [upO, cntO]
            | some l => have := hnl l hlm; simp only [upO, cntO]; omega
          | some L =>
            have := hbelow L hl
            cases hlm : lim with
            | none => simp only [upO, cntO]; omega
            | some l => have := hnl l hlm; simp only [upO, cntO]; omega
        rw [this, List.range'_succ]
        simp
    unfold pullLoop12
    cases hlm : lim with
    | none =>
      simp only
      rw [hlm] at tail
      exact tail (fun l h => by cases h)
    | some l =>
      simp only
      by_cases heq : (it.index : Int) = l
      · rw [if_pos heq]
        have : cntO (upO src.len (some l)) (take + 1) it.index = 0 := by
          cases hl : src.len <;> simp only [upO, cntO] <;> omega
        rw [this]; simp
      · rw [if_neg heq]
        rw [hlm] at tail
        exact tail (fun l' h => by cases h; have := hlim l hlm; omega)

theorem newPull12_spec (c : MemoCfg) (hc : 0 < c.chunk) (m : Memo) (index : Nat)
    (hcap : Cap c m.src index) :
    ∃ m' it, m.newPull12 c index = (m', it) ∧ m'.src = m.src ∧ it.index = index ∧
      SnapOk m.src it.index it.snap it.ok := by
  unfold Memo.newPull12
  obtain ⟨m', snap', ok', hw, hm', hs'⟩ := wait_snapOk c m index hc hcap
  rw [hw]
  exact ⟨_, _, rfl, hm', rfl, hs'⟩

/-- how a `VSpec` encodes the upper end of a window -/
def SpecRep (sp : VSpec) (hi : Option Int) : Prop :=
  match sp with
  | .memo => hi = none
  | .limited l => hi = some l ∧ 0 < l
  | .nil => ∃ h, hi = some h ∧ h ≤ 0

def limOf : VSpec → Option Int
  | .limited l => some l
  | _ => none

theorem spec12Iterate_spec (c : MemoCfg) (hc : 0 < c.chunk) (m : Memo) (sp : VSpec)
    (hi : Option Int) (index take : Nat) (hrep : SpecRep sp hi)
    (hcap : CapPull c m.src index take) :
    (spec12Iterate c m sp index take).2 =
      (List.range' index (cntO (upO m.src.len hi) take index)).map (fun p => (p, m.src.digit p)) := by
  have capOf : ∀ idx, idx ≤ index → Cap c m.src idx ∧ CapPull c m.src idx take := by
    intro idx hle
    unfold CapPull at hcap ⊢; unfold Cap
    cases hl : m.src.len with
    | none => rw [hl] at hcap; simp only at hcap ⊢; omega
    | some L => rw [hl] at hcap; exact ⟨hcap, hcap⟩
  cases sp with
  | nil =>
    obtain ⟨h, hh, hle⟩ := hrep
    have : cntO (upO m.src.len hi) take index = 0 := by
      cases hl : m.src.len <;> simp only [hh, upO, cntO] <;> omega
    rw [this]; simp [spec12Iterate]
  | memo =>
    have hh : hi = none := hrep
    unfold spec12Iterate
    simp only
    obtain ⟨m', it, hn, hm', hidx, hs⟩ := newPull12_spec c hc m index (capOf index (Nat.le_refl _)).1
    rw [hn]
    simp only
    rw [pullLoop12_spec c hc m.src none take m' it [] hm' hs (hidx ▸ (capOf index (Nat.le_refl _)).2)
      (fun l h => by cases h), hidx, hh]
    simp
  | limited l =>
    obtain ⟨hh, hl0⟩ := hrep
    unfold spec12Iterate
    simp only
    by_cases hgt : (index : Int) > l
    · rw [if_pos hgt]
      obtain ⟨m', it, hn, hm', hidx, hs⟩ := newPull12_spec c hc m l.toNat (capOf l.toNat (by omega)).1
      rw [hn]
      simp only
      rw [pullLoop12_spec c hc m.src (some l) take m' it [] hm' hs (hidx ▸ (capOf l.toNat (by omega)).2)
        (fun l' h => by cases h; omega), hidx, hh]
      have h1 : cntO (upO m.src.len (some l)) take l.toNat = 0 := by
        cases hl : m.src.len <;> simp only [upO, cntO] <;> omega
      have h2 : cntO (upO m.src.len (some l)) take index = 0 := by
        cases hl : m.src.len <;> simp only [upO, cntO] <;> omega
      rw [h1, h2]; simp
    · rw [if_neg hgt]
      obtain ⟨m', it, hn, hm', hidx, hs⟩ := newPull12_spec c hc m index (capOf index (Nat.le_refl _)).1
      rw [hn]
      simp only
      rw [pullLoop12_spec c hc m.src (some l) take m' it [] hm' hs (hidx ▸ (capOf index (Nat.le_refl _)).2)
        (fun l' h => by cases h; omega), hidx, hh]
      simp

theorem withLimit_rep (sp : VSpec) (hi : Option Int) (e : Int) (h : SpecRep sp hi) :
    SpecRep (if (withLimit sp e).2 = true then sp else (withLimit sp e).1) (Spec.minOpt hi e) := by
  unfold withLimit
  by_cases he : e ≤ 0
  · rw [if_pos he]
    have hnil : SpecRep .nil (Spec.minOpt hi e) := by
      cases hi with
      | none => exact ⟨e, rfl, he⟩
      | some x => exact ⟨min x e, rfl, by omega⟩
    cases sp <;> simpa using hnil
  · rw [if_neg he]
    cases sp with
    | nil =>
      obtain ⟨x, hx, hle⟩ := h
      simp only [if_true]
      exact ⟨min x e, by rw [hx]; rfl, by omega⟩
    | memo =>
      have : hi = none := h
      simp only [Bool.false_eq_true, if_false, this]
      exact ⟨rfl, by omega⟩
    | limited l =>
      obtain ⟨hx, hl0⟩ := h
      simp only
      by_cases hge : e ≥ l
      · rw [if_pos hge]
        simp only [if_true, hx]
        exact ⟨by simp only [Spec.minOpt]; congr 1; omega, hl0⟩
      · rw [if_neg hge]
        simp only [Bool.false_eq_true, if_false, hx]
        exact ⟨by simp only [Spec.minOpt]; congr 1; omega, by omega⟩

theorem filter_range_ge (lo n : Nat) :
    (List.range n).filter (fun i => decide (lo ≤ i)) = List.range' lo (n - lo) := by
  induction n with
  | zero => simp
  | succ n ih =>
    rw [List.range_succ, List.filter_append, ih]
    by_cases h : lo ≤ n
    · have : n + 1 - lo = (n - lo) + 1 := by omega
      rw [this, List.range'_concat]
      simp [h]
    · have h1 : n + 1 - lo = 0 := by omega
      have h2 : n - lo = 0 := by omega
      simp [h1, h2, h]

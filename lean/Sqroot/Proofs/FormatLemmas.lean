/-
Helper lemmas for C08 (formatting): the streaming formatter on `List Char`.
-/
import Sqroot.Model.Format
import Sqroot.Spec.Format
namespace Sqroot.Proofs.Fmt
open Sqroot Sqroot.Model

set_option linter.deprecated false in
theorem mk_eq (l : List Char) : String.mk l = String.ofList l := rfl

/-- the text `add` appends, as a list of characters -/
def addText (idx e : Int) (c : Char) : List Char :=
  (if idx = 0 ∧ e ≤ 0 then (if e = 0 then ['0'] else '0' :: '.' :: List.replicate (-e).toNat '0') else [])
  ++ (if idx = e then ['.'] else []) ++ [c]

theorem add_eq (f : Formatter) (d : Nat) :
    f.add d = { f with index := f.index + 1, out := String.ofList (f.out.toList ++ addText f.index f.exponent (digitChar d)) } := by
  obtain ⟨s, e, ex, idx, out⟩ := f
  simp only [Formatter.add, Formatter.addLeadingZeros, addText, zeros, mk_eq]
  by_cases h1 : idx = 0 ∧ e ≤ 0
  · obtain ⟨rfl, h1⟩ := h1
    by_cases h2 : e = 0
    · subst h2
      simp [String.ext_iff]
    · have : ¬ (-e ≤ 0) := by omega
      have h3 : ¬ (0 = e) := by omega
      simp [String.ext_iff, h1, h2, this, h3]
  · by_cases h3 : idx = e 
    · subst h3
      simp [String.ext_iff, h1]
    · simp [h1, h3]

/-- positional text of the (already padded) significant characters `cs` with exponent `e` -/
def emit (e : Int) (cs : List Char) : List Char :=
  if cs = [] then []
  else if e ≤ 0 then '0' :: '.' :: (List.replicate (-e).toNat '0' ++ cs)
  else if cs.length > e.toNat then cs.take e.toNat ++ '.' :: cs.drop e.toNat
  else cs

theorem emit_snoc (e : Int) (cs : List Char) (c : Char) :
    emit e (cs ++ [c]) = emit e cs ++ addText cs.length e c := by
  unfold emit addText
  by_cases hcs : cs = []
  · subst hcs
    by_cases h1 : e ≤ 0
    · by_cases h2 : e = 0
      · subst h2; simp
      · have : ¬ (0 = e) := by omega
        simp [h1, h2, this]
    · have : ¬ (0 = e) := by omega
      have h3 : ¬ (1 > e.toNat) := by omega
      simp [h1, this]
  · have hl : cs.length ≠ 0 := by
      intro h; exact hcs (List.length_eq_zero_iff.mp h)
    have hl' : ¬ ((cs.length : Int) = 0) := by omega
    by_cases h1 : e ≤ 0
    · have : ¬ ((cs.length : Int) = e) := by omega
      simp [hcs, h1, this]
    · have he : (e.toNat : Int) = e := by omega
      simp only [List.append_eq_nil_iff, hcs, false_and, if_false, h1, List.length_append, List.length_singleton, hl', List.nil_append]
      by_cases h2 : (cs.length : Int) = e
      · have h3 : cs.length = e.toNat := by omega
        have h4 : cs.length + 1 > e.toNat := by omega
        have h5 : ¬ (cs.length > e.toNat) := by omega
        simp only [h2, h4, h5, if_true, if_false]
        rw [← h3]; simp
      · by_cases h3 : cs.length > e.toNat
        · have h4 : cs.length + 1 > e.toNat := by omega
          have h5 : e.toNat ≤ cs.length := by omega
          simp [h2, h3, h4, List.take_append_of_le_length h5, List.drop_append_of_le_length h5]
        · have h4 : ¬ (cs.length + 1 > e.toNat) := by omega
          simp [h2, h3, h4]

def mkF (s e : Int) (ex : Bool) (cs : List Char) : Formatter :=
  { sigDigits := s, exponent := e, exact := ex, index := cs.length, out := String.ofList (emit e cs) }

theorem mkF_add (s e : Int) (ex : Bool) (cs : List Char) (d : Nat) :
    (mkF s e ex cs).add d = mkF s e ex (cs ++ [digitChar d]) := by
  rw [add_eq]
  simp [mkF, emit_snoc]

theorem mkF_feed (s e : Int) (ex : Bool) (ds : List Nat) (cs : List Char) (n : Nat) :
    ((mkF s e ex cs).feed ds n).1 =
      mkF s e ex (cs ++ (ds.take (s - cs.length).toNat).map digitChar) := by
  induction ds generalizing cs n with
  | nil => simp [Formatter.feed]
  | cons d ds ih =>
    simp only [Formatter.feed]
    by_cases h' : (cs.length : Int) < s
    · have h : (mkF s e ex cs).canConsume = true := decide_eq_true h'
      simp only [h, if_true, Formatter.consume, mkF_add]
      rw [ih]
      have : (s - (cs.length : Int)).toNat = (s - ((cs ++ [digitChar d]).length : Int)).toNat + 1 := by
        simp; omega
      rw [this]; simp
    · have h : (mkF s e ex cs).canConsume = false := decide_eq_false h'
      simp only [h]
      have : (s - (cs.length : Int)).toNat = 0 := by omega
      simp [this]

theorem digitChar_zero : digitChar 0 = '0' := rfl

theorem mkF_padTo (s e : Int) (ex : Bool) (m : Int) (k : Nat) (cs : List Char)
    (hk : k = (m - cs.length).toNat) :
    (mkF s e ex cs).padTo m k = mkF s e ex (cs ++ List.replicate k '0') := by
  induction k generalizing cs with
  | zero => simp [Formatter.padTo]
  | succ k ih =>
    have h : (mkF s e ex cs).index < m := by simp [mkF]; omega
    simp only [Formatter.padTo, h, if_true, mkF_add, digitChar_zero]
    rw [ih]
    · simp [List.replicate_succ]
    · simp; omega


/-- text written by `Finish` when no digit was ever added -/
def zeroText (count : Int) : List Char :=
  if count ≤ 0 then ['0'] else '0' :: '.' :: List.replicate count.toNat '0'

/-- list form of the whole rendering -/
def fixedText (s e : Int) (ex : Bool) (cs : List Char) : List Char :=
  let m := if ex then s else e
  let cs' := cs ++ List.replicate (m - cs.length).toNat '0'
  if cs' = [] then zeroText (if ex then s - e else -e) else emit e cs'

theorem emit_nil (e : Int) : emit e [] = [] := by simp [emit]

theorem mkF_finish (s e : Int) (ex : Bool) (cs : List Char) :
    (mkF s e ex cs).finish = String.ofList (fixedText s e ex cs) := by
  unfold Formatter.finish
  have h1 : (mkF s e ex cs).exact = ex := rfl
  have h2 : (mkF s e ex cs).sigDigits = s := rfl
  have h3 : (mkF s e ex cs).exponent = e := rfl
  have h4 : (mkF s e ex cs).index = cs.length := rfl
  simp only [h1, h2, h3, h4]
  rw [mkF_padTo _ _ _ _ _ _ rfl]
  unfold fixedText
  simp only
  generalize cs ++ List.replicate ((if ex = true then s else e) - (cs.length : Int)).toNat '0' = cs'
  by_cases hc : cs' = []
  · subst hc
    simp only [mkF, List.length_nil, Int.natCast_zero, if_true, emit_nil, Formatter.addLeadingZeros, zeroText, zeros, mk_eq]
    split <;> (simp only [String.ext_iff]; split <;> simp)
  · have : ¬ ((mkF s e ex cs').index = 0) := by
      simp only [mkF]; intro h
      have : cs'.length = 0 := by omega
      exact hc (List.length_eq_zero_iff.mp this)
    simp only [this, hc, if_false]
    rfl

theorem printFixed_eq (s e : Int) (ex : Bool) (ds : List Nat) :
    printFixed s e ex ds =
      (if s < e then .error (.explicit "sigDigits must be >= exponent")
       else .ok (String.ofList (fixedText s e ex ((ds.take s.toNat).map digitChar)))) := by
  unfold printFixed newFormatter
  split
  · rfl
  · have : ({ sigDigits := s, exponent := e, exact := ex } : Formatter) = mkF s e ex [] := by
      simp [mkF, emit_nil]
    show Except.ok (Formatter.finish (Formatter.feed _ ds 0).1) = _
    rw [this, mkF_feed, mkF_finish]
    simp

theorem renderFixed_eq (s e : Int) (ex : Bool) (D : List Nat) :
    Spec.renderFixed s e ex D = String.ofList (fixedText s e ex ((D.take s.toNat).map digitChar)) := by
  unfold Spec.renderFixed fixedText
  simp only [Spec.digitsString, Spec.zeros, mk_eq]
  generalize hds : D.take s.toNat = ds
  have hn : ds.length ≤ s.toNat := by subst hds; simp [List.length_take]; omega
  have hcs : ((ds.map digitChar).length : Int) = ds.length := by simp
  simp only [hcs]
  generalize hT : (if ex = true then s.toNat else max ds.length e.toNat) = T
  have hk : ((if ex = true then s else e) - (ds.length : Int)).toNat = T - ds.length := by
    subst hT; split <;> omega
  rw [hk]
  have hP : String.ofList (List.map (fun d => Char.ofNat (48 + d)) ds) ++ String.ofList (List.replicate (T - ds.length) '0')
      = String.ofList (ds.map digitChar ++ List.replicate (T - ds.length) '0') := by
    rw [String.ofList_append]; rfl
  simp only [hP]
  generalize hcs' : ds.map digitChar ++ List.replicate (T - ds.length) '0' = cs'
  have hlen : cs'.length = T := by
    subst hcs' hT; simp; split <;> omega
  by_cases h0 : T = 0
  · have : cs' = [] := List.length_eq_zero_iff.mp (by omega)
    simp only [h0, this, if_true, zeroText]
    split <;> (simp only [String.ext_iff]; split <;> simp)
  · have : cs' ≠ [] := by intro h; subst h; simp at hlen; omega
    simp only [h0, this, if_false, emit, hlen]
    split
    · simp [String.ext_iff]
    · split <;> simp [String.ext_iff]

theorem toNat_lits : 'f'.toNat = 102 ∧ 'F'.toNat = 70 ∧ 'e'.toNat = 101 ∧ 'E'.toNat = 69 ∧ 'g'.toNat = 103 ∧ 'G'.toNat = 71 ∧ 'v'.toNat = 118 := by decide

theorem beq_int_lit (verb : Nat) (k : Nat) : (((verb : Int) == (k : Int)) = decide (verb = k)) := by
  by_cases h : verb = k
  · subst h; simp
  · have : ¬ ((verb : Int) = (k : Int)) := by omega
    simp [h, this]

theorem newFormatSpec_rule' (v : Version) (verb : Nat) (prec : Option Nat) (e : Int) :
    (match Spec.formatRule verb prec e with
     | some (s, ex, sci, cap) =>
        (genNewFormatSpec v (prec.getD 0) prec.isSome verb e).2 = true ∧
        (genNewFormatSpec v (prec.getD 0) prec.isSome verb e).1.sigDigits = s ∧
        (genNewFormatSpec v (prec.getD 0) prec.isSome verb e).1.exactDigitCount = ex ∧
        (genNewFormatSpec v (prec.getD 0) prec.isSome verb e).1.sci = sci ∧
        (sci = true → (genNewFormatSpec v (prec.getD 0) prec.isSome verb e).1.capital = cap)
     | none => (genNewFormatSpec v (prec.getD 0) prec.isSome verb e).2 = false) := by
  obtain ⟨h1, h2, h3, h4, h5, h6, h7⟩ := toNat_lits
  simp only [Spec.formatRule, h1, h2, h3, h4, h5, h6, h7]
  by_cases c1 : verb = 102
  · subst c1
    cases v <;> cases prec <;> simp [genNewFormatSpec, Gen.V1.newFormatSpec, Gen.V2.newFormatSpec, Gen.V3.newFormatSpec]
  by_cases c2 : verb = 70
  · subst c2
    cases v <;> cases prec <;> simp [genNewFormatSpec, Gen.V1.newFormatSpec, Gen.V2.newFormatSpec, Gen.V3.newFormatSpec]
  by_cases c3 : verb = 101
  · subst c3
    cases v <;> cases prec <;> simp [genNewFormatSpec, Gen.V1.newFormatSpec, Gen.V2.newFormatSpec, Gen.V3.newFormatSpec]
  by_cases c4 : verb = 69
  · subst c4
    cases v <;> cases prec <;> simp [genNewFormatSpec, Gen.V1.newFormatSpec, Gen.V2.newFormatSpec, Gen.V3.newFormatSpec]
  by_cases c5 : verb = 103
  · subst c5
    cases v <;> rcases prec with _ | p <;>
    simp [genNewFormatSpec, Gen.V1.newFormatSpec, Gen.V2.newFormatSpec, Gen.V3.newFormatSpec, Gen.V3.formatSpecForG,
      Gen.V1.bigExponent, Gen.V2.bigExponent, Gen.V3.bigExponent] <;>
    (try (by_cases hp : p = 0 <;> simp [hp])) <;>
    (try grind)
  by_cases c6 : verb = 118
  · subst c6
    cases v <;> rcases prec with _ | p <;>
    simp [genNewFormatSpec, Gen.V1.newFormatSpec, Gen.V2.newFormatSpec, Gen.V3.newFormatSpec, Gen.V3.formatSpecForG,
      Gen.V1.bigExponent, Gen.V2.bigExponent, Gen.V3.bigExponent] <;>
    (try (by_cases hp : p = 0 <;> simp [hp])) <;>
    (try grind)
  by_cases c7 : verb = 71
  · subst c7
    cases v <;> rcases prec with _ | p <;>
    simp [genNewFormatSpec, Gen.V1.newFormatSpec, Gen.V2.newFormatSpec, Gen.V3.newFormatSpec, Gen.V3.formatSpecForG,
      Gen.V1.bigExponent, Gen.V2.bigExponent, Gen.V3.bigExponent] <;>
    (try (by_cases hp : p = 0 <;> simp [hp])) <;>
    (try grind)
  have d1 : ¬ ((verb : Int) = 102) := by omega
  have d2 : ¬ ((verb : Int) = 70) := by omega
  have d3 : ¬ ((verb : Int) = 101) := by omega
  have d4 : ¬ ((verb : Int) = 69) := by omega
  have d5 : ¬ ((verb : Int) = 103) := by omega
  have d6 : ¬ ((verb : Int) = 118) := by omega
  have d7 : ¬ ((verb : Int) = 71) := by omega
  cases v <;>
  simp [genNewFormatSpec, Gen.V1.newFormatSpec, Gen.V2.newFormatSpec, Gen.V3.newFormatSpec, c1, c2, c3, c4, c5, c6, c7, d1, d2, d3, d4, d5, d6, d7]


theorem printFixed_spec' (s e : Int) (exact : Bool) (ds : List Nat) :
    printFixed s e exact ds =
      (if s < e then .error (.explicit "sigDigits must be >= exponent")
       else .ok (Spec.renderFixed s e exact ds)) := by
  rw [printFixed_eq, renderFixed_eq]

theorem printNumber_eq (fs : FormatSpec) (e : Int) (ds : List Nat) (s : Int) (ex sci cap : Bool)
    (h1 : fs.sigDigits = s) (h2 : fs.exactDigitCount = ex) (h3 : fs.sci = sci)
    (h4 : sci = true → fs.capital = cap) (hg : if sci = true then 0 ≤ s else e ≤ s) :
    printNumber fs e ds = .ok (Spec.renderNumber s ex sci cap e ds) := by
  unfold printNumber Spec.renderNumber
  subst h1 h2 h3
  cases hs : fs.sci
  · simp only [hs] at hg
    have : ¬ (fs.sigDigits < e) := by simp at hg; omega
    simp [printFixed_spec', this]
  · simp only [hs, if_true] at hg h4
    have : ¬ (fs.sigDigits < 0) := by omega
    have h5 : fs.capital = cap := h4 trivial
    simp only [if_true, printFixed_spec', this, if_false, h5]
    rfl

theorem formatRule_guard (verb : Nat) (prec : Option Nat) (e s : Int) (ex sci cap : Bool)
    (h : Spec.formatRule verb prec e = some (s, ex, sci, cap)) :
    if sci = true then 0 ≤ s else e ≤ s := by
  unfold Spec.formatRule at h
  simp only at h
  split at h
  · simp at h; obtain ⟨rfl, _, rfl, _⟩ := h; simp; omega
  split at h
  · simp at h; obtain ⟨rfl, _, rfl, _⟩ := h; simp
  split at h
  · simp at h; obtain ⟨rfl, _, rfl, _⟩ := h; simp
  split at h
  · simp at h; obtain ⟨rfl, _, rfl, _⟩ := h
    split <;> split <;> simp_all <;> omega
  split at h
  · simp at h; obtain ⟨rfl, _, rfl, _⟩ := h
    split <;> split <;> simp_all <;> omega
  · simp at h

theorem printField_eq (fs : FormatSpec) (e : Int) (ds : List Nat) (width : Option Nat) (minus : Bool) (t : String)
    (h : printNumber fs e ds = .ok t) :
    printField fs e ds width minus = .ok (Spec.pad t width minus) := by
  unfold printField Spec.pad
  rw [h]
  cases width <;> rfl

theorem numString_eq (v : Version) (e : Int) (ds : List Nat) :
    numString v e ds = .ok (Spec.renderString e ds) := by
  unfold numString Spec.renderString
  have hr : Spec.formatRule 'g'.toNat none e = some (16, false, decide ((16:Int) < e ∨ e < -3 ∨ e > 6), false) := by
    simp [Spec.formatRule, toNat_lits]
  rw [hr]
  simp only
  apply printNumber_eq
  · cases v <;> simp [stringSpec, gPrecisionOf, Gen.V1.gPrecision, Gen.V2.gPrecision, Gen.V3.gPrecision, Gen.V3.formatSpecForG]
  · cases v <;> simp [stringSpec, Gen.V3.formatSpecForG, Gen.V3.gPrecision]
  · cases v <;> simp [stringSpec, Gen.V3.formatSpecForG, Gen.V3.gPrecision, genBigExponent, Gen.V1.bigExponent, Gen.V2.bigExponent, Gen.V3.bigExponent]
    all_goals first | omega | rfl | grind
  · intro; cases v <;> simp [stringSpec, Gen.V3.formatSpecForG, Gen.V3.gPrecision]
  · exact formatRule_guard _ _ _ _ _ _ _ hr


theorem format_spec' (v : Version) (e : Int) (ds : List Nat)
    (verb : Nat) (prec : Option Nat) (width : Option Nat) (minus : Bool) :
    numFormat v e ds verb prec width minus = .ok (Spec.render verb prec width minus e ds) := by
  have hrule := newFormatSpec_rule' v verb prec e
  unfold numFormat Spec.render
  cases hr : Spec.formatRule verb prec e with
  | none =>
    rw [hr] at hrule
    simp only at hrule
    simp only [hrule, numString_eq]
    rfl
  | some q =>
    obtain ⟨s, ex, sci, cap⟩ := q
    rw [hr] at hrule
    simp only at hrule
    obtain ⟨g1, g2, g3, g4, g5⟩ := hrule
    simp only [g1, if_true]
    exact printField_eq _ _ _ _ _ _ (printNumber_eq _ _ _ _ _ _ _ g2 g3 g4 g5 (formatRule_guard _ _ _ _ _ _ _ hr))

theorem exact_spec' (e : Int) (ds : List Nat) :
    numExact e ds = .ok (Spec.renderExact e ds) := by
  unfold numExact Spec.renderExact
  apply printNumber_eq
  · simp [Gen.V3.formatSpecForG, maxInt]
  · simp [Gen.V3.formatSpecForG, maxInt]
  · simp [Gen.V3.formatSpecForG, maxInt, Gen.V3.bigExponent]
    all_goals first
      | done
      | omega
      | (intro h; have := of_decide_eq_true h; omega)
      | grind
  · intro; simp [Gen.V3.formatSpecForG, maxInt]
  · split
    · omega
    · rename_i h; simp at h; omega

theorem string_is_g' (v : Version) (e : Int) (ds : List Nat) :
    numString v e ds = numFormat v e ds 'g'.toNat none none false := by
  rw [format_spec', numString_eq]
  unfold Spec.render Spec.renderString
  have hr : Spec.formatRule 'g'.toNat none e = some (16, false, decide ((16:Int) < e ∨ e < -3 ∨ e > 6), false) := by
    simp [Spec.formatRule, toNat_lits]
  rw [hr]
  rfl

theorem feed_pulls' (f : Formatter) (ds : List Nat) (n : Nat) :
    (f.feed ds n).2 - n ≤ (f.sigDigits - f.index).toNat ∧ (f.feed ds n).2 - n ≤ ds.length := by
  induction ds generalizing f n with
  | nil => simp [Formatter.feed]
  | cons d ds ih =>
    simp only [Formatter.feed]
    split
    · rename_i h
      have := ih (f.consume d) (n+1)
      simp only [Formatter.consume, h, if_true, add_eq] at this ⊢
      simp only [Formatter.canConsume, decide_eq_true_eq] at h
      simp only [List.length_cons]
      omega
    · simp

theorem pad_length' (field : String) (w : Nat) (minus : Bool) :
    (Spec.pad field (some w) minus).length = max w field.length := by
  simp only [Spec.pad, Spec.spaces, mk_eq]
  split <;> simp [String.length_append] <;> omega

end Sqroot.Proofs.Fmt

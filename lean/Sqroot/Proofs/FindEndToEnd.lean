/-
C09 end to end (v3): `FindAll` and `FindLastN` / `FindLast` on ANY finite view of a Number — the
view's traversal over the memoizer feeding the KMP automaton — report exactly the occurrences
inside the view's window, as absolute positions, ascending / descending.
-/
import Sqroot.Model.EndToEnd
import Sqroot.Proofs.EndToEnd
import Sqroot.Proofs.Search
namespace Sqroot.Proofs
open Sqroot.Model


/-- the window listing of a view, as the (position, digit) feed of the search, is `feedOf` of its digits -/
theorem windowFeed_eq_feedOf (len : Option Nat) (digit : Nat → Nat) (w : Spec.Win) (t : Nat) :
    ((Spec.windowList len digit w t).map fun (x : Nat × Nat) => ((x.1 : Int), (x.2 : Int)))
      = feedOf (max w.lo 0) ((Spec.windowList len digit w t).map fun x => (x.2 : Int)) := by
  obtain ⟨cnt, _, hshape, _⟩ := E2E.windowList_shape len digit w t
  rw [hshape]
  exact E2E.feed_eq_feedOf _ _ _ _ (by omega)

/-- `matchesAll` on the feed of a text: every position for the empty pattern, else the occurrences -/
theorem matchesAll_feedOf (pat T : List Int) (s : Int) :
    matchesAll pat.toArray (feedOf s T)
      = .ok (if pat = [] then (List.range T.length).map (shiftPos s)
             else (Spec.occurrences pat T).map (shiftPos s)) := by
  by_cases hp : pat = []
  · subst hp; rw [if_pos rfl]; exact (matchesAll_empty T s).1
  · rw [if_neg hp]; exact matchesAll_spec pat hp T s

theorem backwardMatchesAll_feedOf (pat T : List Int) (s : Int) :
    backwardMatchesAll pat.toArray (feedOf s T).reverse
      = .ok ((if pat = [] then (List.range T.length).map (shiftPos s)
              else (Spec.occurrences pat T).map (shiftPos s)).reverse) := by
  by_cases hp : pat = []
  · subst hp; rw [if_pos rfl]; exact (matchesAll_empty T s).2
  · rw [if_neg hp]; exact backwardMatchesAll_spec pat hp T s

/-- G. FindAll on a finite view of `size` digits -/
theorem findAll_end_to_end (c : MemoCfg) (m : Memo) (b v : Val3) (chain : List ViewOp)
    (pat : List Int) (size : Nat)
    (hb : IsBase3 b) (hv : applyChain3 b chain = some v) (hfin : v.assertsFiniteSeq = true)
    (hsize : Spec.windowSize m.src.len (Spec.winOf (chain.map toSpecOp)) = some size)
    (hfit : Fits c m.src (Spec.winOf (chain.map toSpecOp)) (size + 1)) :
    let w := Spec.winOf (chain.map toSpecOp)
    let T : List Int := (Spec.windowList m.src.len m.src.digit w size).map fun x => (x.2 : Int)
    ∃ m', findAll3 c m v pat size
        = some (.ok (m', if pat = [] then (List.range T.length).map (shiftPos (max w.lo 0))
                         else (Spec.occurrences pat T).map (shiftPos (max w.lo 0)))) := by
  intro w T
  obtain ⟨m1, hf, _⟩ := forward_chain3 c m b v chain (size + 1) hb hv hfit
  rw [E2E.windowList_ge_size _ _ _ size (size + 1) hsize (Nat.le_succ _)] at hf
  refine ⟨m1, ?_⟩
  unfold findAll3
  rw [hfin]
  simp only [Bool.not_true, Bool.false_eq_true, if_false]
  rw [hf]
  simp only
  have hfeed := windowFeed_eq_feedOf m.src.len m.src.digit w size
  have hfeed' : (List.map (fun (x : Nat × Nat) => match x with | (p, d) => ((p : Int), (d : Int)))
      (Spec.windowList m.src.len m.src.digit w size)) = feedOf (max w.lo 0) T := hfeed
  rw [hfeed', matchesAll_feedOf]

/-- H. FindLastN (FindLast for n = 1) on a finite view of `size` digits: the last n occurrences,
descending -/
theorem findLastN_end_to_end (c : MemoCfg) (m : Memo) (b v : Val3) (chain : List ViewOp)
    (pat : List Int) (n size : Nat)
    (hb : IsBase3 b) (hv : applyChain3 b chain = some v) (hfin : v.assertsFiniteSeq = true)
    (hsize : Spec.windowSize m.src.len (Spec.winOf (chain.map toSpecOp)) = some size)
    (hfit : Fits c m.src (Spec.winOf (chain.map toSpecOp)) (size + 1)) :
    let w := Spec.winOf (chain.map toSpecOp)
    let T : List Int := (Spec.windowList m.src.len m.src.digit w size).map fun x => (x.2 : Int)
    ∃ m', findLastN3 c m v pat n size
        = some (.ok (m', ((if pat = [] then (List.range T.length).map (shiftPos (max w.lo 0))
                           else (Spec.occurrences pat T).map (shiftPos (max w.lo 0))).reverse).take n)) := by
  intro w T
  unfold findLastN3
  rw [hfin]
  simp only [Bool.not_true, Bool.false_eq_true, if_false]
  by_cases hn : n = 0
  · subst hn; exact ⟨m, by simp⟩
  rw [if_neg hn]
  have hbk := backward_chain3 c m b v chain (size + 1) size hb hv hsize
    (E2E.fits_mono hfit (Nat.le_succ _))
  rw [List.take_of_length_le (by
    rw [List.length_reverse]
    exact Nat.le_succ_of_le (E2E.windowList_length_le _ _ _ _))] at hbk
  refine ⟨(v.backward c m (size + 1)).1, ?_⟩
  have hfeed := windowFeed_eq_feedOf m.src.len m.src.digit w size
  have hfeed' : (List.map (fun (x : Nat × Nat) => ((x.1 : Int), (x.2 : Int)))
      (v.backward c m (size + 1)).2) = (feedOf (max w.lo 0) T).reverse := by
    rw [hbk, List.map_reverse]; exact congrArg List.reverse hfeed
  rw [hfeed', backwardMatchesAll_feedOf]

/-- the hypotheses of H are satisfiable: the view `[2, 11)` of a 16-digit finite Number; the last
occurrence of 1 2 1 inside it starts at absolute position 8 -/
example :
    let c : MemoCfg := ⟨100, 92233720368547758⟩
    let digs : List Nat := [1,2,1,2,1,3,1,2,1,2,1,2,4,1,2,1]
    let m : Memo := { src := ⟨some 16, fun p => digs.getD p 0⟩ }
    ∃ m', findLastN3 c m (.mws (.limited 11) 2) [1,2,1] 1 9 = some (.ok (m', [8])) := by
  intro c digs m
  have h := findLastN_end_to_end c m (.fnum .memo 1) (.mws (.limited 11) 2)
    [.withStart 2, .withEnd 11] [1,2,1] 1 9 ⟨1, Or.inl rfl⟩ (by decide) rfl (by decide)
    ⟨by decide, by decide, by decide⟩
  have hocc : (if ([1,2,1] : List Int) = [] then
        (List.range ((Spec.windowList m.src.len m.src.digit
          (Spec.winOf ([ViewOp.withStart 2, .withEnd 11].map toSpecOp)) 9).map fun x => (x.2 : Int)).length).map
          (shiftPos (max (Spec.winOf ([ViewOp.withStart 2, .withEnd 11].map toSpecOp)).lo 0))
      else (Spec.occurrences [1,2,1] ((Spec.windowList m.src.len m.src.digit
          (Spec.winOf ([ViewOp.withStart 2, .withEnd 11].map toSpecOp)) 9).map fun x => (x.2 : Int))).map
          (shiftPos (max (Spec.winOf ([ViewOp.withStart 2, .withEnd 11].map toSpecOp)).lo 0)))
      = [2, 6, 8] := by decide
  simp only [hocc] at h
  exact h


end Sqroot.Proofs

/-
Types shared by the generated files `Sqroot/Gen/V*.lean` (hand-written, tiny, core only).
-/
namespace Sqroot

/-- `formatSpec` of sqroot.go -/
structure FormatSpec where
  sigDigits : Int
  exactDigitCount : Bool
  sci : Bool
  capital : Bool
deriving Repr, DecidableEq, Inhabited

/-- the `printerSettings` literal in `Fprint` / `Fwrite` -/
structure PrinterDefaults where
  digitsPerRow : Int
  digitsPerColumn : Int
  showCount : Bool
  missingDigit : Int
  bufferSize : Int
  trailingLineFeed : Bool
  leadingDecimal : Bool
deriving Repr, DecidableEq, Inhabited

/-- `len(strconv.Itoa(x))` -/
def itoaLen (x : Int) : Int := (toString x).length

/-- a Go `int` result that does not fit 64 bits (the generated `…Ovf` companions collect these for
every +, -, *, unary -, / on the executed path; division by zero counts as well) -/
def outI64 (x : Int) : Bool := decide (x < -9223372036854775808) || decide (x > 9223372036854775807)

/-- placeholder the extractor emits for an expression it cannot translate (it also records a
problem): the generated file still compiles, so that only the theorems that use the affected
definition stop checking -/
def untranslated {α : Type} [Inhabited α] : α := default

end Sqroot

/-
modeldriver: reads protocol lines on stdin, prints per line `ok` or `DIFF model=… impl=…`:
does the executable MODEL (built on the regenerated `Gen` definitions) compute what the
implementation answered?  This is the correspondence check (tie 2).
-/
import Sqroot.Driver.ModelRoot
import Sqroot.Driver.ModelPos
import Sqroot.Driver.ModelScript
import Sqroot.Driver.SchedTrace
open Sqroot.Driver Sqroot.Model

def modelLine (l : Line) : String :=
  match l.kind, l.args with
  | "root", [v, deg, _, num, den, k] =>
    match parseVersion v, deg.toNat?, num.toNat?, den.toNat?, k.toNat? with
    | some v, some n, some num, some den, some k =>
      if rootArithmeticUntranslated v then "ok"
      else if n = 2 then cmp (modelDigitsResult (sqrtMgr v) num den k) l.rawRes
      else if n = 3 then cmp (modelDigitsResult (cubeMgr v) num den k) l.rawRes
      else "FAIL bad degree"
    | _, _, _, _, _ => "FAIL bad args"
  | "rat", [_, num, den, k] =>
    match num.toNat?, den.toNat?, k.toNat? with
    | some num, some den, some k => cmp (modelRatResult num den k) l.rawRes
    | _, _, _ => "FAIL bad args"
  | "pos", [_, script] => cmp (modelPosResult script) l.rawRes
  | "script", [v, desc, stmts] => modelScriptLine v desc stmts l.rawRes
  | "strace", [v, desc, progs, _] => straceLine v desc progs l.rawRes
  | _, _ => "skip"

def main : IO Unit := do
  loop (← IO.getStdin) (← IO.getStdout) modelLine

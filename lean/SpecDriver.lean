/-
specdriver: reads protocol lines on stdin, prints per line `ok` or `FAIL <reason>`: does the
IMPLEMENTATION's recorded answer satisfy the SPECIFICATION? Imports Spec only (neither Gen nor
Model), so it keeps working whatever happens to the code or the model.
-/
import Sqroot.Driver.SpecRoot
import Sqroot.Driver.SpecPos
import Sqroot.Driver.SpecScript
import Sqroot.Driver.SpecCtor
open Sqroot.Driver

def specLine (l : Line) : String :=
  match l.kind, l.args with
  | "root", [_, deg, _, num, den, k] =>
    match deg.toNat?, num.toNat?, den.toNat?, k.toNat? with
    | some n, some num, some den, some k => specRootLine n num den k l.res l.rawRes
    | _, _, _, _ => "FAIL bad args"
  | "rat", [_, num, den, k] =>
    match num.toNat?, den.toNat?, k.toNat? with
    | some num, some den, some k => specRootLine 1 num den k l.res l.rawRes
    | _, _, _ => "FAIL bad args"
  | "pos", [_, script] => specPosLine script l.rawRes
  | "script", [v, desc, stmts] => specScriptLine v desc stmts l.rawRes
  | "conc", [v, desc, progs] => specConcLine v desc progs l.rawRes
  | "sconc", [v, desc, progs, _] => specSchedLine v desc progs l.rawRes false
  | "strace", [v, desc, progs, _] => specSchedLine v desc progs l.rawRes true
  | "ctor", [_, fn, a, b] =>
    match a.toInt?, b.toInt? with
    | some a, some b => specCtorLine fn a b l.rawRes
    | _, _ => "FAIL bad args"
  | "zv", [_] => specZvLine l.rawRes
  | "argkept", [_, what] =>
    if l.rawRes == "true" then "ok" else s!"FAIL the library modified the caller's argument of {what}"
  | _, _ => "skip"

def main : IO Unit := do
  loop (← IO.getStdin) (← IO.getStdout) specLine

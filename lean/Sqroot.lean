-- This module serves as the root of the `Sqroot` library.
-- Import modules here that should be built as part of the library.
import Sqroot.Basic
